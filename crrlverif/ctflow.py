"""E2 ctflow: secret-independent control flow and addressing at MIR level (C02).

Rule: in every externally reachable function that the repository does not
document as variable-time, no leak sink (SwitchInt discriminant, index /
bounds-check operand, slice range, division operand, value-reading std call)
is data-flow reachable from a secret source.  Secrets: everything except
lengths, literals, const generics, usize/bool/&str parameters, the reviewed
public types / fields / parameters (tables/secrecy.json)."""
import json
import os
import re

from . import taint
from .mir import Body
from .report import Finding

VERIF = os.path.dirname(os.path.dirname(os.path.abspath(__file__)))
NOT_CT = re.compile(r"not\s+constant[- ]time", re.I)


def load_tables():
    with open(os.path.join(VERIF, "tables", "secrecy.json")) as fh:
        return json.load(fh)


def norm_name(name):
    """Normalise generic argument lists out of a pretty path."""
    out = []
    depth = 0
    for ch in name:
        if ch == "<":
            depth += 1
            continue
        if ch == ">":
            depth -= 1
            continue
        if depth == 0:
            out.append(ch)
    s = "".join(out)
    while "::::" in s:
        s = s.replace("::::", "::")
    return s


def name_variants(nn):
    """`nn` and `nn` with the module segment nearest to the item dropped: a private function moved into a private helper
    module (`mod util { pub(super) fn f() }`) is still the function the reviewed tables name."""
    segs = nn.split("::")
    out = [nn]
    k = len(segs) - 1
    if k >= 1 and segs[k - 1][:1].isupper():
        k -= 1
    if k >= 3 and segs[k - 1][:1].islower():
        out.append("::".join(segs[:k - 1] + segs[k:]))
    return out


def fullmatch_name(pat, nn):
    return any(re.fullmatch(pat, v) for v in name_variants(nn))


class CtPolicy(taint.Policy):
    implicit = False

    def __init__(self, facts, tables):
        self.f = facts
        self.t = tables
        self.status_cache = {}

    def interesting_sink(self, kind):
        return True


def is_public_fn(fn):
    if "vartime" in fn["name"]:
        return "vartime-named"
    if NOT_CT.search(fn.get("doc", "")):
        return "documented not constant-time"
    return None


class StatusRule:
    """Recognise `status != 0` style discriminants (status = u32 result of a call, combined with
    and/or/xor/not) by def-chasing single-assignment temporaries."""

    def __init__(self, facts):
        self.f = facts

    def is_u32(self, body, local):
        td = self.f.ty(body.local_ty(local))
        return td.get("k") == "uint" and td.get("bits") == 32

    def status_expr(self, body, op, depth=0):
        if depth > 12:
            return False
        if op[0] == "k":
            return op[1] is not None and int(op[1]) in (0, 0xFFFFFFFF)
        if op[0] not in ("cp", "mv"):
            return False
        pl = op[1]
        local = pl[0]
        if len(pl) == 2 and pl[1][0] == "f":
            # field of a call-result tuple
            d = body.single_def(local)
            if d and d[2] == "call":
                td = self.f.ty(body.local_ty(local))
                if td.get("k") == "tuple":
                    ft = self.f.ty(td["elems"][pl[1][1]])
                    return ft.get("k") == "uint" and ft.get("bits") == 32
            return False
        if len(pl) != 1:
            return False
        if not self.is_u32(body, local):
            return False
        defs = body.defs().get(local, [])
        if not defs:
            return False
        # every definition must be a status expression (covers `r &= x` style re-assignment)
        for d in defs:
            if d[2] == "call":
                callee = d[3][1]
                if not callee["l"]:
                    # wrapping_neg etc. are not statuses
                    return False
                continue
            if d[2] != "A":
                return False
            rv = d[3][2]
            if rv[0] == "use":
                if rv[1][0] in ("cp", "mv") and rv[1][1] == [local]:
                    continue
                if not self.status_expr(body, rv[1], depth + 1):
                    return False
            elif rv[0] == "bin" and rv[1] in ("BitAnd", "BitOr", "BitXor"):
                for o in (rv[2], rv[3]):
                    if o[0] in ("cp", "mv") and o[1] == [local]:
                        continue
                    if not self.status_expr(body, o, depth + 1):
                        return False
            elif rv[0] == "un" and rv[1] == "Not":
                if not self.status_expr(body, rv[2], depth + 1):
                    return False
            else:
                return False
        return True

    def switch_is_status_test(self, body, bi):
        """Block bi ends in a switch on (status ==/!= 0) or directly on a status word."""
        t = body.blocks[bi]["t"]
        if t[0] != "switch":
            return False
        op = t[1]
        if op[0] not in ("cp", "mv") or len(op[1]) != 1:
            return False
        local = op[1][0]
        td = self.f.ty(body.local_ty(local))
        if td.get("k") == "uint" and td.get("bits") == 32:
            return self.status_expr(body, op)
        if td.get("k") != "bool":
            return False
        d = body.single_def(local)
        if not d or d[2] != "A":
            return False
        rv = d[3][2]
        if rv[0] == "bin" and rv[1] in ("Eq", "Ne"):
            a, b = rv[2], rv[3]
            for x, y in ((a, b), (b, a)):
                if y[0] == "k" and y[1] is not None and int(y[1]) in (0, 0xFFFFFFFF):
                    if self.status_expr(body, x):
                        return True
        return False


class CtAnalysis(taint.FnAnalysis):
    """FnAnalysis that tags status-test branches so that the policy can declassify them."""

    def exec_block(self, bi, st):
        t = self.body.blocks[bi]["t"]
        if t[0] == "switch":
            # temporarily record which sink kind to use
            self._status_switch = self.eng.status_rule.switch_is_status_test(self.body, bi)
        else:
            self._status_switch = False
        super().exec_block(bi, st)

    def assign(self, place, rv, st, ctrl, line):
        self._cur_rv = rv
        super().assign(place, rv, st, ctrl, line)
        self._cur_rv = None
        # the bool of a declassified status test (`ok != 0` in an Option/bool-returning function) is public, exactly like the
        # branch on it: `(ok != 0).then_some(r)` and `if ok != 0 { Some(r) } else { None }` give the same public discriminant
        if rv[0] == "bin" and rv[1] in ("Eq", "Ne") and len(place) == 1 and self._returns_option_or_bool():
            sr = self.eng.status_rule
            for x, y in ((rv[2], rv[3]), (rv[3], rv[2])):
                if y[0] == "k" and y[1] is not None and int(y[1]) in (0, 0xFFFFFFFF) and sr.status_expr(self.body, x):
                    self.st_write(st, (place[0], ()), ctrl, True)
                    break

    def _returns_option_or_bool(self):
        rt = self.f.ty(self.fn["locals"][0][0])
        s_ = rt.get("s", "")
        return rt.get("k") == "bool" or s_.startswith("core::option::Option<") or s_.startswith("std::option::Option<")

    def sink(self, kind, site, labels, detail):
        if kind == "cmp":
            rv = getattr(self, "_cur_rv", None)
            if rv is not None and rv[0] == "bin" and rv[1] in ("Eq", "Ne") and self._returns_option_or_bool():
                sr = self.eng.status_rule
                for x, y in ((rv[2], rv[3]), (rv[3], rv[2])):
                    if y[0] == "k" and y[1] is not None and int(y[1]) in (0, 0xFFFFFFFF) and sr.status_expr(self.body, x):
                        kind = "cmp-status"
                        break
        if kind == "branch" and getattr(self, "_status_switch", False):
            rt = self.f.ty(self.fn["locals"][0][0])
            s = rt.get("s", "")
            if rt.get("k") == "bool" or s.startswith("core::option::Option<") or s.startswith("std::option::Option<"):
                kind = "branch-status"
        super().sink(kind, site, labels, detail)


class CtEngine(taint.Engine):
    def __init__(self, facts, policy):
        super().__init__(facts, policy)
        self.status_rule = StatusRule(facts)

    def summary(self, fn):
        fid = fn["id"]
        s = self.summaries.get(fid)
        if s is not None:
            return s
        if fid in self.in_progress:
            c = taint.Summary()
            c.conservative = True
            return c
        self.in_progress.add(fid)
        try:
            s = CtAnalysis(self, fn).run()
        finally:
            self.in_progress.discard(fid)
        self.summaries[fid] = s
        return s


def type_is_public_scalar(td):
    k = td.get("k")
    if k == "bool":
        return True
    if k in ("uint", "int") and td.get("usize"):
        return True
    if k == "ref" or k == "str":
        return False
    return False


def public_atoms(facts, fn, tables):
    """Set of predicates deciding whether an atom of fn is public.  Returns a function atom->reason or None."""
    name = norm_name(fn["name"])
    item = fn["item"]
    self_adt = norm_name(fn.get("self_adt", "") or "")
    pub_types = tables["public_types"]
    mixed = tables["mixed_structs"]
    pparams = tables["public_params"]

    def adt_of(tid):
        td = facts.ty(tid)
        if td.get("k") in ("ref", "ptr"):
            td = facts.ty(td["to"])
        if td.get("k") in ("slice", "array"):
            td2 = facts.ty(td["elem"])
            if td2.get("k") in ("ref", "ptr"):
                td2 = facts.ty(td2["to"])
            return td2
        return td

    def type_public(td):
        if td.get("k") == "adt":
            p = norm_name(td["path"])
            for pat in pub_types:
                if re.fullmatch(pat, p):
                    return True
        return False

    self_public = False
    if self_adt:
        for pat in pub_types:
            if re.fullmatch(pat, self_adt):
                self_public = True

    def check(atom):
        if atom == ("rng",):
            return None
        if self_public:
            return "method of a public type"
        if not (isinstance(atom, tuple) and len(atom) == 3 and atom[0] in ("v", "m")):
            return "non-parameter atom"
        kind, i, path = atom
        if i > fn["argc"]:
            return None
        tid = fn["locals"][i][0]
        pname = fn["locals"][i][1]
        td = facts.ty(tid)
        if kind == "v" and type_is_public_scalar(td):
            return "usize/bool parameter"
        base = adt_of(tid)
        if base.get("k") == "str" or td.get("s") in ("&str", "&'static str"):
            return "&str parameter"
        if "core::fmt::Formatter" in td.get("s", ""):
            return "formatter"
        if type_public(base):
            return "public type"
        # mixed structs: listed fields are secret, everything else public
        if base.get("k") == "adt":
            p = norm_name(base["path"])
            for pat, secret_fields in mixed.items():
                if re.fullmatch(pat, p):
                    fields = base.get("variants", [[None, 0, []]])[0][2]
                    if path and isinstance(path[0], int) and path[0] < len(fields):
                        fname = fields[path[0]][0]
                        sub = None
                        if len(path) > 1 and isinstance(path[1], int):
                            ftd = facts.ty(fields[path[0]][1])
                            if ftd.get("k") == "adt" and "variants" in ftd and ftd["variants"]:
                                ff = ftd["variants"][0][2]
                                if path[1] < len(ff):
                                    sub = "%s.%s" % (fname, ff[path[1]][0])
                        if fname in secret_fields or (sub and sub in secret_fields):
                            return None
                        if sub is not None and any(sf.startswith(fname + ".") for sf in secret_fields):
                            return "public field of mixed struct"
                        if any(sf.startswith(fname + ".") for sf in secret_fields) and sub is None:
                            return None
                        return "public field of mixed struct"
                    return None
        # public params table: [fn regex, param name regex]
        for ent in pparams:
            if re.fullmatch(ent["fn"], name) and ((ent.get("index") and atom[1] in ent["index"]) or
                                                  (not ent.get("index") and pname is not None and re.fullmatch(ent["param"], pname))):
                if ent.get("int_only") and td.get("k") not in ("uint", "int"):
                    continue
                return "public parameter (%s)" % ent["why"]
        return None

    return check


def run_ctflow(facts, run, prop="C02"):
    tables = load_tables()
    pol = CtPolicy(facts, tables)
    eng = CtEngine(facts, pol)
    cfg = facts.config
    declass = tables["declassify"]
    used_declass = set()
    n_obl = 0
    n_pub = 0
    n_sinks = 0
    flagged = {}
    by_inner = {}
    for fn in sorted(facts.fns.values(), key=lambda x: x["name"]):
        if fn["kind"] == "Closure":
            continue
        if not fn.get("reach"):
            continue
        why = is_public_fn(fn)
        if why:
            n_pub += 1
            continue
        name = norm_name(fn["name"])
        if fn.get("trait") and ("fmt::Debug" in fn["trait"] or "fmt::Display" in fn["trait"]):
            continue
        summ = eng.summary(fn)
        n_obl += 1
        check = public_atoms(facts, fn, tables)
        bad_sites = []
        for (kind, site, detail), labels in summ.sinks.items():
            n_sinks += 1
            if kind in ("branch-status", "cmp-status"):
                continue
            secret = [a for a in labels if check(a) is None]
            if not secret:
                continue
            bad_sites.append((kind, site, detail, secret))
        if not bad_sites:
            run.oblige()
            if n_obl % 97 == 0:
                run.sample("%s: %d sinks reachable, none depends on a secret parameter (config %s)" % (
                    fn["name"], len(summ.sinks), cfg))
            continue
        # declassification table: by function name (normalised) + sink kind
        remaining = []
        for bs in bad_sites:
            ok = False
            innermost = fn["name"]
            st_ = bs[1]
            while isinstance(st_, tuple):
                innermost = st_[1]
                st_ = st_[2]
            for ent in declass:
                if ent.get("configs") and cfg not in ent["configs"]:
                    continue
                if ent.get("inner"):
                    if re.fullmatch(ent["inner"], norm_name(innermost)) and ent.get("kind", "*") in ("*", bs[0], "branch" if bs[0] == "cmp" else bs[0]):
                        ok = True
                        used_declass.add("inner:" + ent["inner"])
                        break
                    continue
                if re.fullmatch(ent["fn"], name) and (ent.get("kind", "*") in ("*", bs[0], "branch" if bs[0] == "cmp" else bs[0])):
                    # `via`: the reviewed callee may be any hop of the call chain down to the sink (a private helper
                    # inserted between the entry point and that callee changes nothing about the declassification)
                    hops = []
                    st2 = bs[1]
                    while isinstance(st2, tuple):
                        hops.append(norm_name(st2[1]))
                        st2 = st2[2]
                    if ent.get("via") and not any(re.fullmatch(ent["via"], h_) for h_ in hops):
                        continue
                    ok = True
                    used_declass.add(ent["fn"] + "|" + ent.get("via", ""))
                    break
            if not ok:
                remaining.append(bs)
        if not remaining:
            run.oblige()
            continue
        run.oblige(ok=False)
        flagged[fn["name"]] = remaining
        for kind, site, detail, secret in remaining:
            inner = fn["name"]
            st_ = site
            chain = [fn["name"]]
            while isinstance(st_, tuple):
                inner = st_[1]
                chain.append(inner)
                st_ = st_[2]
            params = sorted(set("%s%s" % (fn["locals"][a[1]][1] or "_%d" % a[1], "".join(".%s" % p for p in a[2]))
                                for a in secret if isinstance(a, tuple) and len(a) == 3 and a[0] in ("v", "m")) |
                            set("rng" for a in secret if a == ("rng",)))
            g = by_inner.setdefault((kind, norm_name(inner), detail if kind == "valueread" else ""), dict(entries=[], site=st_, inner=inner, detail=detail))
            g["entries"].append((fn["name"], params, chain, site))
    for (kind, inner, _d), g in sorted(by_inner.items()):
        ents = g["entries"]
        ents.sort(key=lambda e: (len(e[2]), e[0]))
        e0 = ents[0]
        innerfn = facts.fn_named(g["inner"]) or {}
        run.add(Finding("CT1", "%s|%s%s" % (inner, kind, ("|" + _d) if _d else ""),
                        "ctflow: secret-dependent %s sink (%s) in %s:%s fn %s; reached from %d obligated pub fn(s), e.g. %s via secret %s" % (
                            kind, g["detail"], innerfn.get("file", "?"), g["site"], g["inner"], len(set(e[0] for e in ents)),
                            e0[0], ",".join(e0[1])),
                        config=cfg, site="%s:%s" % (innerfn.get("file", "?"), g["site"]),
                        path=e0[2] + ["sink@%s" % g["site"]], prop=prop))
    stats = dict(obligated=n_obl, public_fns=n_pub, sinks=n_sinks, unmodelled=dict(eng.unmodelled),
                 engine=eng.stats, declass_used=sorted(used_declass))
    return stats, flagged, eng


def _fmt_site(site):
    out = []
    while isinstance(site, tuple):
        out.append("call@%s -> %s" % (site[0], site[1]))
        site = site[2]
    out.append("sink@%s" % site)
    return out
