"""E8 gates: checks that must reach the result (C05 C06 C07 C08 C09 C13 C15 C16 C17).

Dependence analysis (taint engine with implicit flows) whose sources are
*check facts* found in the MIR:
  lencmp:<param><op><const>      comparison of a parameter slice length with a constant
  elemcmp:<param>[i]<op><const>  comparison of an unmodified constant-indexed byte of a parameter
  call:<callee>(<arg provenance>) result of a call to a decoder / predicate / equation check
A gate holds when its source label reaches the function's result (data or
control dependence).  Required gates per function are listed in
tables/gates.json, one line per conjunct of the specified acceptance rule."""
import json
import os
import re

from . import taint
from .absint import FnEval
from .mir import Body, operand_local, const_int
from .report import Finding
from .ctflow import norm_name

VERIF = os.path.dirname(os.path.dirname(os.path.abspath(__file__)))

# callees whose results are worth tracking as gates (normalised last path segments)
GATE_CALLEE = re.compile(
    r".*::((set_)?decode[A-Za-z0-9_]*|iszero|isneutral|equals|is_negative|is_invalid|verify[A-Za-z0-9_]*|"
    r"has_low_order|is_in_subgroup|(set_)?sqrt[A-Za-z0-9_]*|legendre|point_decode|scalar_decode|"
    r"scalar_cmp_vartime|trace|qsolve|set_halftrace|from_affine|make_challenge|ots_verify|"
    r"commitment_list_is_sorted|binding_factor_for_participant|sqrt_ratio_m1|isqrt|set_isqrt|set_normalized|set_montyred|normalize_limbs|coef|checksum)")
EXT_GATE = ("PartialEq", "::eq", "::ne")


def load_table():
    with open(os.path.join(VERIF, "tables", "gates.json")) as fh:
        return json.load(fh)


class GatePolicy(taint.Policy):
    implicit = True

    def __init__(self, facts):
        self.f = facts
        self.evals = {}
        self.ordinals = {}

    def ev(self, eng, fn):
        e = self.evals.get(fn["id"])
        if e is None:
            e = FnEval(self.f, eng.body(fn))
            self.evals[fn["id"]] = e
        return e

    def interesting_sink(self, kind):
        return False

    # provenance of a slice/array reference operand: "param[a..b]" / "param" / None
    def provenance(self, eng, fn, op, depth=0):
        ev = self.ev(eng, fn)
        b = ev.b
        if depth > 12 or op[0] not in ("cp", "mv") or len(op[1]) != 1:
            return None
        l = op[1][0]
        if l != 0 and l <= fn["argc"]:
            return fn["locals"][l][1] or "_%d" % l
        d = b.single_def(l)
        if not d:
            return None
        if d[2] == "A":
            rv = d[3][2]
            if rv[0] == "ref":
                pl = rv[2]
                if len(pl) == 2 and pl[1] == "*":
                    return self.provenance(eng, fn, ["cp", [pl[0]]], depth + 1)
                if len(pl) == 1:
                    # reference to a local array: follow copies into it?  name it
                    return self.local_origin(eng, fn, pl[0], depth + 1)
                return None
            if rv[0] in ("use",):
                return self.provenance(eng, fn, rv[1], depth + 1)
            if rv[0] == "cast":
                return self.provenance(eng, fn, rv[2], depth + 1)
            return None
        t = d[3]
        name = t[1]["f"]
        if "ops::Index<I> for [T" in name or "ops::IndexMut<I> for [T" in name or "Vec<T, A> as core::ops::Index" in name:
            base = self.provenance(eng, fn, t[2][0], depth + 1)
            if base is None:
                return None
            rng = ev.range_of(t[2][1])
            if rng is None:
                return base + "[?]"
            kind, a, c = rng

            def fmt(iv):
                if iv is None:
                    return "?"
                return str(int(iv[0])) if iv[0] == iv[1] else "?"
            if kind == "full":
                return base
            if kind == "range":
                return "%s[%s..%s]" % (base, fmt(a), fmt(c))
            if kind == "from":
                return "%s[%s..]" % (base, fmt(a))
            if kind in ("to", "toinc"):
                return "%s[..%s%s]" % (base, "=" if kind == "toinc" else "", fmt(c))
        if name.endswith("::as_ref") or "Deref>::deref" in name or name.endswith("try_from"):
            return self.provenance(eng, fn, t[2][0], depth + 1)
        if name.endswith("::unwrap") or name.endswith("::expect"):
            return self.provenance(eng, fn, t[2][0], depth + 1)
        if t[1]["l"] and re.search(r"::(bswap32|bswap)$", norm_name(name)):
            p = self.provenance(eng, fn, t[2][0], depth + 1)
            return "bswap(%s)" % p if p else None
        return None

    def value_origin(self, eng, fn, op, depth):
        """'res:<callee>(<provs>)' if a by-value / by-reference operand is (a copy of) a tracked call's result."""
        if depth > 10 or op[0] not in ("cp", "mv"):
            return None
        pl = op[1]
        ev = self.ev(eng, fn)
        l = pl[0]
        if l != 0 and l <= fn["argc"] and len(pl) == 1:
            return None
        d = ev.b.single_def(l)
        if not d:
            return None
        if d[2] == "call":
            t = d[3]
            nn = norm_name(t[1]["f"])
            if t[1]["l"] and GATE_CALLEE.fullmatch(nn):
                ps = []
                for a in t[2]:
                    if a[0] in ("cp", "mv") and len(a[1]) == 1:
                        td = self.f.ty(fn["locals"][a[1][0]][0])
                        if td.get("k") in ("ref", "ptr"):
                            inner = self.f.ty(td["to"])
                            if inner.get("k") in ("slice", "array"):
                                ps.append(self.provenance(eng, fn, a) or "?")
                return "res:%s(%s)" % (nn.split("::")[-1], ",".join(ps))
            return None
        rv = d[3][2]
        if rv[0] == "use":
            return self.value_origin(eng, fn, rv[1], depth + 1)
        if rv[0] == "ref":
            return self.value_origin(eng, fn, ["cp", rv[2]], depth + 1)
        return None

    def local_origin(self, eng, fn, l, depth):
        """Name an array local: by debug name, or by what is copied into it."""
        n = fn["locals"][l][1]
        ev = self.ev(eng, fn)
        d = ev.b.single_def(l)
        if d and d[2] == "call":
            nm = d[3][1]["f"]
            if d[3][1]["l"] and re.search(r"::(bswap32|bswap)$", norm_name(nm)):
                p = self.provenance(eng, fn, d[3][2][0], depth + 1)
                if p:
                    return "bswap(%s)" % p
        if d and d[2] == "A" and d[3][2][0] == "use" and d[3][2][1][0] in ("cp", "mv"):
            src = d[3][2][1][1]
            if len(src) == 2 and src[1] == "*":
                p = self.provenance(eng, fn, ["cp", [src[0]]], depth + 1)
                if p:
                    return "*" + p
        return "local:" + (n or "_%d" % l)

    def call_labels(self, eng, fn, bi, callee, argv):
        name = callee["f"]
        nn = norm_name(name)
        track = False
        if callee["l"]:
            if GATE_CALLEE.fullmatch(nn):
                track = True
        else:
            if any(x in name for x in EXT_GATE) and ("[" in name or "slice" in name or "array" in name):
                track = True
                nn = "slice_eq"
        if not track:
            return taint.EMPTY
        provs = []
        for (_l, _p, op) in argv:
            if op[0] in ("cp", "mv") and len(op[1]) == 1:
                td = self.f.ty(fn["locals"][op[1][0]][0])
                if td.get("k") in ("ref", "ptr"):
                    inner = self.f.ty(td["to"])
                    if inner.get("k") in ("slice", "array") and self.f.ty(inner["elem"]).get("k") == "uint":
                        provs.append(self.provenance(eng, fn, op) or "?")
                        continue
                vp = self.value_origin(eng, fn, op, 0)
                if vp:
                    provs.append(vp)
        short = "::".join(nn.split("::")[-2:])
        encl = "::".join(norm_name(fn["name"]).split("::")[-2:])
        # ordinal of this call site among the calls to the same callee in the enclosing function
        key = (fn["id"], short)
        om = self.ordinals.setdefault(key, {})
        if bi not in om:
            om[bi] = None
            for i, b_ in enumerate(sorted(om)):
                om[b_] = i
        return frozenset([("call", short, ",".join(provs), encl, (fn["id"], short, bi))])


class GateAnalysis(taint.FnAnalysis):
    """Adds comparison-fact labels (lencmp / elemcmp) at BinaryOp comparisons."""

    def assign(self, place, rv, st, ctrl, line):
        if rv[0] == "bin" and rv[1] in ("Eq", "Ne", "Lt", "Le", "Gt", "Ge"):
            lab = self.cmp_label(rv)
            if lab is not None:
                super().assign(place, rv, st, ctrl | frozenset([lab]), line)
                return
        super().assign(place, rv, st, ctrl, line)

    def exec_block(self, bi, st):
        # `match slice.len() { 33 => .. }`: the switch itself is the length test
        t = self.body.blocks[bi]["t"]
        if t[0] == "switch":
            ev = self.pol.ev(self.eng, self.fn)
            root = ev.len_root(t[1])
            if root is not None:
                vals = ",".join(str(int(v)) for v, _b in t[2])
                lab = ("lencmp", self.fn["locals"][root][1] or "_%d" % root, "match", vals)
                self.disc[bi] = self.disc.get(bi, taint.EMPTY) | frozenset([lab])
        super().exec_block(bi, st)

    def cmp_label(self, rv):
        ev = self.pol.ev(self.eng, self.fn)
        fn = self.fn
        for x, y, flip in ((rv[2], rv[3], False), (rv[3], rv[2], True)):
            c = const_int(y)
            if c is None:
                iv = ev.op_ival(y)
                if iv is not None and iv[0] == iv[1]:
                    c = int(iv[0])
            if c is None:
                continue
            op = rv[1]
            if flip:
                op = {"Eq": "Eq", "Ne": "Ne", "Lt": "Gt", "Le": "Ge", "Gt": "Lt", "Ge": "Le"}[op]
            root = ev.len_root(x)
            if root is not None:
                return ("lencmp", fn["locals"][root][1] or "_%d" % root, op, str(c))
            e = self.elem_of(x, ev, 0)
            if e is not None:
                return ("elemcmp", "%s[%s]" % e, op, str(c))
            le = self.len_expr(x, ev)
            if le is not None:
                return ("lencmp", le, op, str(c))
            wv = self.word_of(x, ev, 0)
            if wv is not None:
                return ("elemcmp", wv, op, str(c))
        return None

    def word_of(self, op, ev, depth):
        """'be(param[a..b])' if op is an integer decoded from a fixed sub-slice of a parameter."""
        if depth > 8 or op[0] not in ("cp", "mv") or len(op[1]) != 1:
            return None
        d = ev.b.single_def(op[1][0])
        if not d:
            return None
        if d[2] == "A":
            rv = d[3][2]
            if rv[0] == "use":
                return self.word_of(rv[1], ev, depth + 1)
            if rv[0] == "cast" and rv[1] == "IntToInt":
                return self.word_of(rv[2], ev, depth + 1)
            return None
        t = d[3]
        nm = t[1]["f"]
        m = re.search(r"::from_(be|le)_bytes$", nm)
        if not m:
            return None
        a = t[2][0]
        # argument is `*ref` of try_from(..).unwrap(): chase the deref'd array back to its slice
        if a[0] in ("cp", "mv") and len(a[1]) == 1:
            dd = ev.b.single_def(a[1][0])
            if dd and dd[2] == "A" and dd[3][2][0] == "use":
                src = dd[3][2][1]
                if src[0] in ("cp", "mv") and len(src[1]) == 2 and src[1][1] == "*":
                    p = self.pol.provenance(self.eng, self.fn, ["cp", [src[1][0]]])
                    if p:
                        return "%s(%s)" % (m.group(1), p)
        return None

    def key_str(self, key, ev):
        t = key[0]
        if t == "k":
            return str(key[1])
        if t == "len":
            return "len(%s)" % (self.fn["locals"][key[1]][1] or "_%d" % key[1])
        if t == "l":
            # loop variable of a range iterator?
            d = ev.b.single_def(key[1])
            if d and d[2] == "A" and d[3][2][0] == "use":
                o = d[3][2][1]
                if o[0] in ("cp", "mv") and len(o[1]) == 3 and o[1][1][0] == "d":
                    return "i"
            n = self.fn["locals"][key[1]][1]
            if key[1] != 0 and key[1] <= self.fn["argc"]:
                return n or "_%d" % key[1]
            return "v"
        if t == "cast":
            return self.key_str(key[2], ev)
        if t == "?":
            return "?"
        if len(key) == 3:
            return "(%s %s %s)" % (self.key_str(key[1], ev), t.replace("Unchecked", ""), self.key_str(key[2], ev))
        return "?"

    def len_expr(self, op, ev):
        reads = []
        key = ev.expr_key(op, reads)
        s_ = self.key_str(key, ev)
        if "len(" in s_ and "v" not in re.sub(r"len\([^)]*\)", "", s_) and "?" not in s_:
            return s_
        return None

    def elem_of(self, op, ev, depth):
        """(param name, const index) if op is an unmodified copy / widening cast of param[const]."""
        if depth > 8 or op[0] not in ("cp", "mv"):
            return None
        pl = op[1]
        if len(pl) == 3 and pl[1] == "*" and pl[2][0] == "i":
            root = ev.ref_root(["cp", [pl[0]]])
            iv = ev.ival(pl[2][1])
            if root is not None and iv is not None and iv[0] == iv[1]:
                return (self.fn["locals"][root][1] or "_%d" % root, int(iv[0]))
            if root is not None:
                key = ev.expr_key(["cp", [pl[2][1]]], [])
                return (self.fn["locals"][root][1] or "_%d" % root, self.key_str(key, ev))
            return None
        if len(pl) == 3 and pl[1] == "*" and pl[2][0] == "c":
            root = ev.ref_root(["cp", [pl[0]]])
            if root is not None and not pl[2][3]:
                return (self.fn["locals"][root][1] or "_%d" % root, pl[2][1])
            return None
        if len(pl) != 1:
            return None
        d = ev.b.single_def(pl[0])
        if not d or d[2] != "A":
            return None
        rv = d[3][2]
        if rv[0] == "use":
            return self.elem_of(rv[1], ev, depth + 1)
        if rv[0] == "cast" and rv[1] == "IntToInt":
            return self.elem_of(rv[2], ev, depth + 1)
        return None


class GateEngine(taint.Engine):
    def summary(self, fn):
        fid = fn["id"]
        s = self.summaries.get(fid)
        if s is not None:
            return s
        if fid in self.in_progress:
            c = taint.Summary()
            c.conservative = True
            return c
        self.in_progress.add(fid)
        try:
            s = GateAnalysis(self, fn).run()
        finally:
            self.in_progress.discard(fid)
        self.summaries[fid] = s
        return s


def label_str(l, pol=None):
    if l[0] == "call":
        o = 0
        if pol is not None:
            fid, short, bi = l[4]
            o = pol.ordinals.get((fid, short), {}).get(bi, 0)
        return "call:%s(%s)@%s#%d" % (l[1], l[2], l[3], o)
    if l[0] == "lencmp":
        return "lencmp:%s %s %s" % (l[1], l[2], l[3])
    if l[0] == "elemcmp":
        return "elemcmp:%s %s %s" % (l[1], l[2], l[3])
    return None


def result_labels(summ):
    out = set(summ.ret)
    for v in summ.ret_cells.values():
        out |= v
    return out


def gate_strings(summ, include_out=False, pol=None):
    labs = result_labels(summ)
    if include_out:
        for v in summ.out.values():
            labs |= v
    out = set()
    for l in labs:
        if isinstance(l, tuple) and l and l[0] in ("call", "lencmp", "elemcmp"):
            s = label_str(l, pol)
            if s:
                out.add(s)
    return out


def field_strings(summ, field, pol):
    labs = set()
    for path, v in summ.ret_cells.items():
        if not path or path[0] == field:
            labs |= v
    out = set()
    for l in labs:
        if isinstance(l, tuple) and l and l[0] in ("call", "lencmp", "elemcmp"):
            s_ = label_str(l, pol)
            if s_:
                out.add(s_)
    return out


def subst_consts(facts, fn, pat):
    """{const:NAME} / {pow2:NAME}: value of the module-level const NAME next to fn's type."""
    if "{" not in pat:
        return pat
    mod = "::".join(norm_name(fn["name"]).split("::")[:-2])

    def rep(m):
        kind, nm = m.group(1), m.group(2)
        rec = facts.data.get(mod + "::" + nm)
        if rec is None or "bytes" not in rec:
            return "<missing const %s>" % nm
        v = int.from_bytes(bytes.fromhex(rec["bytes"]), "little")
        return str(1 << v) if kind == "pow2" else str(v)
    return re.sub(r"\{(const|pow2):(\w+)\}", rep, pat)


def check_call_args(facts, run, prop, table, cfg):
    """G10: a wrapper must pass the specified constant flags to the shared inner routine."""
    n = 0
    for ent in table.get("call_args", []):
        if prop not in ent["props"]:
            continue
        matched = [fn for fn in facts.fns.values() if re.fullmatch(ent["fn"], norm_name(fn["name"]))]
        if not matched:
            run.oblige(ok=False)
            run.add(Finding("G0", ent["fn"], "gates: anchor function %s not found" % ent["fn"], config=cfg, prop=prop))
            continue
        for fn in matched:
            n += 1
            ok = False
            detail = "no call to %s" % ent["callee"]
            for b in fn["blocks"]:
                t = b["t"]
                if t[0] != "call" or not re.fullmatch(ent["callee"], norm_name(t[1]["f"])):
                    continue
                tgt = facts.fns.get(t[1]["id"])
                if tgt is None:
                    continue
                ok = True
                for pname, want in ent["params"].items():
                    idx = None
                    for i in range(1, tgt["argc"] + 1):
                        if tgt["locals"][i][1] == pname:
                            idx = i - 1
                    if idx is None or idx >= len(t[2]):
                        ok = False
                        detail = "callee has no parameter `%s`" % pname
                        break
                    c = const_int(t[2][idx])
                    if c != want:
                        ok = False
                        detail = "argument `%s` is %s, specified constant is %s" % (
                            pname, "not a constant" if c is None else c, want)
                        break
                break
            run.oblige(ok=ok)
            if not ok:
                run.add(Finding("G10", "%s|%s" % (norm_name(fn["name"]), ",".join(sorted(ent["params"]))),
                                "gates: %s (%s:%s): %s -- %s" % (fn["name"], fn["file"], fn["line"], detail, ent["why"]),
                                config=cfg, site="%s:%s" % (fn["file"], fn["line"]), prop=prop))
    return n


class _Plain(taint.Policy):
    implicit = False


def check_independent(facts, run, prop, table, cfg):
    """G11: the value written through parameter `param` does not depend on its previous value."""
    ents = [e for e in table.get("independent", []) if prop in e["props"]]
    if not ents:
        return 0
    eng = taint.Engine(facts, _Plain())
    n = 0
    for ent in ents:
        matched = [fn for fn in facts.fns.values() if re.fullmatch(ent["fn"], norm_name(fn["name"]))]
        if not matched:
            run.oblige(ok=False)
            run.add(Finding("G0", ent["fn"], "gates: anchor function %s not found" % ent["fn"], config=cfg, prop=prop))
        for fn in matched:
            n += 1
            summ = eng.summary(fn)
            dep = set()
            for (i, path), labels in summ.out.items():
                if i != ent["param"]:
                    continue
                for a in labels:
                    if isinstance(a, tuple) and len(a) == 3 and a[0] == "m" and a[1] == ent["param"]:
                        dep.add(path)
            run.oblige(ok=not dep)
            if dep:
                run.add(Finding("G11", norm_name(fn["name"]),
                                "gates G11: the result of %s (%s:%s) depends on the previous value of its output operand (fields %s) -- %s" % (
                                    fn["name"], fn["file"], fn["line"], sorted(dep, key=str)[:4], ent["why"]),
                                config=cfg, site="%s:%s" % (fn["file"], fn["line"]), prop=prop))
    return n


def run_gates(facts, run, prop):
    table = load_table()
    eng = GateEngine(facts, GatePolicy(facts))
    cfg = facts.config
    n_gates = 0
    n_fns = 0
    for ent in table["functions"]:
        if prop not in ent["props"] and not (prop == "C18" and "C05" in ent["props"]):
            continue
        if ent.get("configs") and cfg not in ent["configs"]:
            continue
        matched = [fn for fn in facts.fns.values() if re.fullmatch(ent["fn"], norm_name(fn["name"]))]
        if not matched:
            if ent.get("optional"):
                continue
            run.oblige(ok=False)
            run.add(Finding("G0", ent["fn"], "gates: anchor function %s not found (rule would pass vacuously)" % ent["fn"],
                            config=cfg, prop=prop))
            continue
        for fn in matched:
            n_fns += 1
            summ = eng.summary(fn)
            have_all = gate_strings(summ, include_out=ent.get("include_out", False), pol=eng.policy)
            for g in ent["gates"]:
                if g.get("props") and prop not in g["props"] and prop != "C18":
                    continue
                n_gates += 1
                pat = subst_consts(facts, fn, g["src"])
                have = have_all
                if "field" in g:
                    have = field_strings(summ, g["field"], eng.policy)
                ok = len([h for h in have if re.fullmatch(pat, h)]) >= g.get("min", 1)
                run.oblige(ok=ok)
                if ok:
                    if n_gates % 9 == 0:
                        run.sample("%s: gate /%s/ reaches the result (%s)" % (fn["name"], pat, g["why"]))
                else:
                    run.add(Finding("G3", "%s|%s" % (norm_name(fn["name"]), pat),
                                    "gates: in %s (%s:%s) the result depends on %d check fact(s) matching /%s/ where the specification needs %d -- %s" % (
                                        fn["name"], fn["file"], fn["line"], len([h for h in have if re.fullmatch(pat, h)]), pat, g.get("min", 1), g["why"]),
                                    config=cfg, site="%s:%s" % (fn["file"], fn["line"]), prop=prop))
            for g in ent.get("forbid", []):
                n_gates += 1
                pat = g["src"]
                bad = [h for h in have_all if re.fullmatch(pat, h)]
                run.oblige(ok=not bad)
                if bad:
                    run.add(Finding("G1", "%s|forbid|%s" % (norm_name(fn["name"]), pat),
                                    "gates: in %s (%s:%s) the result depends on %s -- %s" % (
                                        fn["name"], fn["file"], fn["line"], bad[0], g["why"]),
                                    config=cfg, site="%s:%s" % (fn["file"], fn["line"]), prop=prop))
    n_ca = check_call_args(facts, run, prop, table, cfg)
    n_ca += check_independent(facts, run, prop, table, cfg)
    if prop == "C16":
        from . import lmsstate
        lmsstate.run_lmsstate(facts, run, prop)
    run.stats = getattr(run, "stats", {})
    run.stats.update(gate_fns=n_fns, gates=n_gates, call_arg_rules=n_ca, engine=eng.stats)
    return eng
