"""E8 gates: checks that must reach the result (C05 C06 C07 C08 C09 C13 C15 C16 C17).

Dependence analysis (taint engine with implicit flows) whose sources are
*check facts* found in the MIR:
  lencmp:<param><op><const>      comparison of a parameter slice length with a constant
  elemcmp:<param>[i]<op><const>  comparison of an unmodified constant-indexed byte of a parameter
  call:<callee>(<arg provenance>) result of a call to a decoder / predicate / equation check
A gate holds when its source label reaches the function's result (data or
control dependence).  Required gates per function are listed in
tables/gates.json, one line per conjunct of the specified acceptance rule."""
import json
import os
import re

from . import taint
from .absint import FnEval
from . import descr
from .mir import Body, operand_local, const_int
from .report import Finding
from .ctflow import norm_name

VERIF = os.path.dirname(os.path.dirname(os.path.abspath(__file__)))

# callees whose results are worth tracking as gates (normalised last path segments)
GATE_CALLEE = re.compile(
    r".*::((set_)?decode[A-Za-z0-9_]*|iszero|isneutral|equals|is_negative|is_invalid|verify[A-Za-z0-9_]*|"
    r"has_low_order|is_in_subgroup|(set_)?sqrt[A-Za-z0-9_]*|legendre|point_decode|scalar_decode|"
    r"scalar_cmp_vartime|trace|qsolve|set_halftrace|from_affine|make_challenge|ots_verify|"
    r"commitment_list_is_sorted|binding_factor_for_participant|sqrt_ratio_m1|isqrt|set_isqrt|set_normalized|set_montyred|normalize_limbs|coef|checksum)")
EXT_GATE = ("PartialEq", "::eq", "::ne")


def load_table():
    with open(os.path.join(VERIF, "tables", "gates.json")) as fh:
        return json.load(fh)


class GatePolicy(taint.Policy):
    implicit = True

    def __init__(self, facts):
        self.f = facts
        self.descs = {}
        self.ordinals = {}
        self.retmemo = {}
        self.retbusy = set()
        self.eng = None

    def describer(self, eng, fn):
        d = self.descs.get(fn["id"])
        if d is None:
            if getattr(self, "_succctx", None) is None:
                from .absint import SuccCtx
                self._succctx = SuccCtx(self.f)
            d = descr.Describer(self.f, eng.body(fn), rets=lambda fid: self.ret_desc(eng, fid), ctx=self._succctx,
                                ret_slices=lambda fid, path: self.ret_slice(eng, fid, path),
                                ret_values=lambda fid, path: self.ret_value(eng, fid, path))
            self.descs[fn["id"]] = d
        return d

    def ret_slice(self, eng, fid, path):
        """slice descriptor (callee terms) found at `path` of what local function fid returns"""
        key = ("S", fid, path)
        if key in self.retmemo:
            return self.retmemo[key]
        self.retmemo[key] = None
        fn = self.f.fns.get(fid)
        if fn is not None and fid not in self.retbusy:
            self.retbusy.add(fid)
            try:
                self.retmemo[key] = self.describer(eng, fn).returned_slice(path)
            finally:
                self.retbusy.discard(fid)
        return self.retmemo[key]

    def ret_value(self, eng, fid, path):
        """value descriptor (callee terms) found at `path` of what local function fid returns (`Some((q, ty))`)"""
        key = ("V", fid, path)
        if key in self.retmemo:
            return self.retmemo[key]
        self.retmemo[key] = None
        fn = self.f.fns.get(fid)
        if fn is not None and ("V", fid) not in self.retbusy:
            self.retbusy.add(("V", fid))
            try:
                d = self.describer(eng, fn).returned_value(path)
                if d is not None and not descr.mentions_input(d):
                    d = None
                self.retmemo[key] = d
            finally:
                self.retbusy.discard(("V", fid))
        return self.retmemo[key]

    def ret_desc(self, eng, fid):
        """Descriptor (in the callee's own parameter terms) of the integer a local function returns."""
        if fid in self.retmemo:
            return self.retmemo[fid]
        if fid in self.retbusy:
            return None
        fn = self.f.fns.get(fid)
        if fn is None:
            return None
        rt = self.f.ty(fn["locals"][0][0])
        if rt.get("k") not in ("uint", "int"):
            self.retmemo[fid] = None
            return None
        self.retbusy.add(fid)
        try:
            d = self.describer(eng, fn).value_of(["cp", [0]])
        finally:
            self.retbusy.discard(fid)
        if d is not None and not descr.mentions_input(d):
            d = None
        self.retmemo[fid] = d
        return d

    def interesting_sink(self, kind):
        return kind == "maskbyte"

    def res_of(self, eng, fn, op, depth=0):
        """("res", callee, args) if a by-value / by-reference operand is (a copy of) a tracked call's result."""
        if depth > 10 or op[0] not in ("cp", "mv"):
            return None
        pl = op[1]
        dsc = self.describer(eng, fn)
        l = pl[0]
        if l != 0 and l <= fn["argc"] and (len(pl) == 1 or all(e == "*" for e in pl[1:])):
            # a value parameter handed on (`fn scalar_ok(s: &Scalar, c: u32) -> bool { c != 0 && s.iszero() == 0 }`): what it
            # is gets decided at the call site (GateAnalysis.subst)
            td = self.f.ty(fn["locals"][l][0])
            if td.get("k") in ("ref", "ptr"):
                td = self.f.ty(td["to"])
            if td.get("k") == "adt" and not fn.get("reach"):
                return ("parg", l)
            return None
        d = dsc.b.single_def(l)
        if not d:
            return None
        if d[2] == "call":
            t = d[3]
            nn = norm_name(t[1]["f"])
            if t[1]["l"] and GATE_CALLEE.fullmatch(nn):
                ps = []
                for a in t[2]:
                    sl = self.slice_arg(eng, fn, a)
                    if sl is not None:
                        ps.append(sl)
                return ("res", nn.split("::")[-1], tuple(ps))
            return None
        rv = d[3][2]
        if rv[0] == "use":
            return self.res_of(eng, fn, rv[1], depth + 1)
        if rv[0] == "ref":
            return self.res_of(eng, fn, ["cp", rv[2]], depth + 1)
        return None

    def slice_arg(self, eng, fn, op):
        """Slice descriptor if the operand is a reference to a byte/word slice or array."""
        if op[0] in ("cp", "mv") and len(op[1]) == 1:
            td = self.f.ty(fn["locals"][op[1][0]][0])
            if td.get("k") in ("ref", "ptr"):
                inner = self.f.ty(td["to"])
                if inner.get("k") in ("slice", "array") and self.f.ty(inner["elem"]).get("k") == "uint":
                    return self.describer(eng, fn).slice_of(op) or ("l", "?")
                if inner.get("k") in ("ref", "ptr"):
                    # `&&[u8]` (comparison of two `&[u8]` values, `a == b`): the slice behind the inner reference
                    d = self.describer(eng, fn).b.single_def(op[1][0])
                    if d and d[2] == "A" and d[3][2][0] == "ref" and len(d[3][2][2]) == 1:
                        return self.slice_arg(eng, fn, ["cp", [d[3][2][2][0]]])
        return None

    def call_labels(self, eng, fn, bi, callee, argv):
        name = callee["f"]
        nn = norm_name(name)
        track = False
        if callee["l"]:
            if GATE_CALLEE.fullmatch(nn):
                track = True
        else:
            if any(x in name for x in EXT_GATE) and ("[" in name or "slice" in name or "array" in name
                                                     or ("for &A" in name and any(str(x).startswith("[") for x in (callee.get("g") or [])))):
                track = True
                nn = "slice_eq"
        if not track:
            return taint.EMPTY
        provs = []
        for (_l, _p, op) in argv:
            sl = self.slice_arg(eng, fn, op)
            if sl is not None:
                provs.append(sl)
                continue
            vp = self.res_of(eng, fn, op, 0)
            if vp:
                provs.append(vp)
                continue
            fp = self.describer(eng, fn).field_of(op)
            if fp is not None and fp[2]:
                provs.append(fp)
        short = "::".join(nn.split("::")[-2:])
        # a closure is part of the function that contains it: `decode::{closure#0}` counts as `PublicKey::decode`
        encl = "::".join(re.sub(r"(::\{closure#\d+\})+$", "", norm_name(fn["name"])).split("::")[-2:])
        key = (fn["id"], short)
        om = self.ordinals.setdefault(key, {})
        if bi not in om:
            om[bi] = None
            for i, b_ in enumerate(sorted(om)):
                om[b_] = i
        return frozenset([("call", short, tuple(provs), encl, (fn["id"], short, bi))])


FACT_TAGS = ("call", "cmp", "cmpm")


class GateAnalysis(taint.FnAnalysis):
    """Adds comparison-fact labels at BinaryOp comparisons and re-expresses callee facts in caller terms."""

    def assign(self, place, rv, st, ctrl, line):
        if rv[0] == "bin" and rv[1] in ("Eq", "Ne", "Lt", "Le", "Gt", "Ge"):
            lab = self.cmp_label(rv)
            if lab is not None:
                if len(place) == 1:
                    self.eng.fact_sites.setdefault(lab, set()).add((self.fn["id"], getattr(self, "_cur_bi", None), place[0]))
                super().assign(place, rv, st, ctrl | frozenset([lab]), line)
                return
        super().assign(place, rv, st, ctrl, line)
        # byte masks derived from a status word (`(!ok) as u8`): remember what they depend on
        if rv[0] == "cast" and rv[1] == "IntToInt" and len(place) == 1:
            td = self.f.ty(rv[3])
            if td.get("k") == "uint" and td.get("bits") == 8:
                l = operand_local(rv[2])
                for _ in range(4):      # plain copies
                    d = self.body.single_def(l) if l is not None else None
                    if d and d[2] == "A" and d[3][2][0] == "use" and operand_local(d[3][2][1]) is not None:
                        l = operand_local(d[3][2][1])
                    else:
                        break
                d = self.body.single_def(l) if l is not None else None
                if d is None and l is not None and 0 < l <= self.fn["argc"] and len(self.fn["blocks"]) <= 4 \
                        and self.f.ty(self.body.local_ty(l)).get("bits") == 32:
                    # `fn status_to_byte(status: u32) -> u8 { status as u8 }`: the helper form of the same cast
                    labs = self.st_read(st, (place[0], ()))
                    key = ("maskbyte", line, "mask byte from a status parameter")
                    self.events[key] = self.events.get(key, taint.EMPTY) | labs | frozenset([("maskmark",)])
                if d is not None and l is not None and self.f.ty(self.body.local_ty(l)).get("bits") == 32 and (
                        (d[2] == "A" and d[3][2][0] == "bin" and d[3][2][1] in ("BitAnd", "BitOr"))
                        or (d[2] == "call" and d[3][1].get("l"))):
                    # `let keep = ok as u8; .. & !keep`: the status itself as a byte (inverse-polarity mask)
                    labs = self.st_read(st, (place[0], ()))
                    key = ("maskbyte", line, "mask byte from status")
                    self.events[key] = self.events.get(key, taint.EMPTY) | labs | frozenset([("maskmark",)])
                if d and d[2] == "A" and d[3][2][0] == "un" and d[3][2][1] == "Not":
                    sl = operand_local(d[3][2][2])
                    if sl is not None:
                        st_td = self.f.ty(self.body.local_ty(sl))
                        if st_td.get("k") == "uint" and st_td.get("bits") == 32:
                            labs = self.st_read(st, (place[0], ()))
                            key = ("maskbyte", line, "mask byte from !status")
                            self.events[key] = self.events.get(key, taint.EMPTY) | labs | frozenset([("maskmark",)])

    def exec_block(self, bi, st):
        # `match slice.len() { 33 => .. }` / `match word { .. }`: the switch itself is the test
        t = self.body.blocks[bi]["t"]
        self._cur_bi = bi
        if t[0] == "switch":
            dsc = self.pol.describer(self.eng, self.fn)
            td = self.f.ty(t[5]) if len(t) > 5 else {}
            if td.get("k") in ("uint", "int"):
                D = dsc.value_of(t[1])
                if D is not None and descr.mentions_input(D):
                    vals = ",".join(str(int(v)) for v, _b in t[2])
                    self.disc[bi] = self.disc.get(bi, taint.EMPTY) | frozenset([("cmpm", D, "match", vals)])
                    self.eng.fact_sites.setdefault(("cmpm", D, "match", vals), set()).add((self.fn["id"], bi, None))
        super().exec_block(bi, st)

    def cmp_label(self, rv):
        dsc = self.pol.describer(self.eng, self.fn)
        for x, y, flip in ((rv[2], rv[3], False), (rv[3], rv[2], True)):
            c = const_int(y)
            if c is None:
                iv = dsc.ev.op_ival(y)
                if iv is not None and iv[0] == iv[1]:
                    c = int(iv[0])
            if c is None:
                c = self.sym_const(y, dsc)
            if c is None:
                continue
            if const_int(x) is not None:
                continue
            op = rv[1]
            if flip:
                op = {"Eq": "Eq", "Ne": "Ne", "Lt": "Gt", "Le": "Ge", "Gt": "Lt", "Ge": "Le"}[op]
            D = dsc.value_of(x)
            if D is not None and D[0] != "k" and descr.mentions_input(D):
                return ("cmp", D, op, str(c))
        return None

    def sym_const(self, op, dsc, depth=0):
        """'sym:NAME' for an operand that is (a copy of) a compile-time constant the compiler left symbolic
        (associated consts of generic types such as Self::ENC_LEN)."""
        if op[0] == "k" and op[1] is None and len(op) > 3 and isinstance(op[3], dict):
            nm = op[3].get("item") or op[3].get("sym") or "?"
            return "sym:" + re.sub(r"[^A-Za-z0-9_]", "", nm.split("::")[-1])
        if depth < 6 and op[0] in ("cp", "mv") and len(op[1]) == 1:
            d = dsc.b.single_def(op[1][0])
            if d and d[2] == "A" and d[3][2][0] == "use":
                return self.sym_const(d[3][2][1], dsc, depth + 1)
        return None

    def subst(self, labels, argv, st):
        out = super().subst(frozenset(l for l in labels if not (isinstance(l, tuple) and l and l[0] in FACT_TAGS)), argv, st)
        facts_ = [l for l in labels if isinstance(l, tuple) and l and l[0] in FACT_TAGS]
        if not facts_:
            return out
        dsc = self.pol.describer(self.eng, self.fn)
        args = [a[2] for a in argv]
        extra = set()
        for l in facts_:
            if l[0] in ("cmp", "cmpm"):
                D = dsc.subst_value(l[1], args)
                if D is None or not descr.mentions_input(D):
                    continue   # no longer about this function's inputs
                nl = (l[0], D, l[2], l[3])
                if nl != l and l in self.eng.fact_sites:
                    self.eng.fact_sites.setdefault(nl, set()).update(self.eng.fact_sites[l])
                extra.add(nl)
            else:
                na = []
                for x in l[2]:
                    if x is None:
                        na.append(None)
                    elif x[0] == "parg":
                        na.append(self.pol.res_of(self.eng, self.fn, args[x[1] - 1]) if 0 < x[1] <= len(args) else None)
                    elif x[0] in ("p", "l", "bswap", "sub", "subp", "subv"):
                        na.append(dsc.subst_slice(x, args) or ("l", "?"))
                    else:
                        na.append(dsc.subst_value(x, args))
                extra.add(("call", l[1], tuple(na), l[3], l[4]))
        return out | frozenset(extra)


class GateEngine(taint.Engine):
    def __init__(self, *a, **kw):
        taint.Engine.__init__(self, *a, **kw)
        self.fact_sites = {}    # fact label -> {(fn id, block, bool local | None)}: where the comparison is made

    def summary(self, fn):
        fid = fn["id"]
        s = self.summaries.get(fid)
        if s is not None:
            return s
        if fid in self.in_progress:
            c = taint.Summary()
            c.conservative = True
            return c
        self.in_progress.add(fid)
        try:
            s = GateAnalysis(self, fn).run()
        finally:
            self.in_progress.discard(fid)
        self.summaries[fid] = s
        return s


def label_str(l, pol=None, fn=None):
    if l[0] == "call":
        o = 0
        if pol is not None:
            fid, short, bi = l[4]
            o = pol.ordinals.get((fid, short), {}).get(bi, 0)
        return "call:%s(%s)@%s#%d" % (l[1], ",".join(descr.render_arg(x, fn) for x in l[2] if x is not None), l[3], o)
    if l[0] in ("cmp", "cmpm"):
        D = l[1]
        txt = descr.render_value(D, fn)
        kind = "valcmp"
        if D[0] == "len":
            kind = "lencmp"
            txt = descr.render_slice(D[1], fn)
        elif "len(" in txt and not re.search(r"\b(be|le)\(|\w\[", txt.replace("len(", "")):
            kind = "lencmp"
        elif D[0] in ("elem", "be", "le"):
            kind = "elemcmp"
        op, c = canon_cmp(l[2], l[3])
        return "%s:%s %s %s" % (kind, txt, op, c)
    return None


def canon_cmp(op, c):
    """One spelling per test: `x == c` / `x != c` -> Ne c;  `x < c`, `x >= c`, `x <= c-1`, `x > c-1` -> Lt c.
    (Which outcome rejects is the business of G12, not of the fact's name.)"""
    if op == "Eq":
        return "Ne", c
    if op in ("Lt", "Ge", "Le", "Gt"):
        try:
            v = int(c)
        except (TypeError, ValueError):
            return {"Ge": "Lt", "Gt": "Le"}.get(op, op), c
        if op in ("Le", "Gt"):
            v += 1
        return "Lt", str(v)
    return op, c


# ---------------------------------------------------------------------------
# G12: a required rejection test made by a branch must actually reject
# ---------------------------------------------------------------------------

def _failure_rvalue(rv):
    if rv[0] == "use":
        c = const_int(rv[1])
        return c == 0
    if rv[0] == "agg":
        k = rv[1]
        if k.get("path", "").endswith("option::Option") and k.get("variant") == 0:
            return True
        if k.get("path", "").endswith("result::Result") and k.get("variant") == 1:
            return True         # `Err(..)` of an internal Result (`.ok()` / `.is_ok()` at the public boundary)
        if k.get("k") == "tuple" and rv[2] and const_int(rv[2][-1]) == 0:
            return True
    return False


def success_blocks(body):
    """blocks that give the return place a value that is not a literal failure (false / 0 / None)."""
    out = set()
    for bi in body.reach:
        blk = body.blocks[bi]
        for st in blk["s"]:
            if st[0] == "A" and st[1][0] == 0 and not _failure_rvalue(st[2]):
                out.add(bi)
        t = blk["t"]
        if t[0] == "call" and t[3] and t[3][0] == 0:
            out.add(bi)
    return out


def _reaches_any(body, start, targets, facts=None):
    """Is a block of `targets` reachable from `start`?  Path-sensitive in bool locals that are assigned literal
    constants on the way (`let bad = a || b; if bad { return None }` lowers to `bad = true` on one edge and a later
    switch on `bad`): a switch on such a local whose value is known follows only the matching edge."""
    flags = set()
    if facts is not None:
        for l, ds in body.defs().items():
            k_ = facts.ty(body.local_ty(l)).get("k")
            if k_ == "bool" and any(d[2] == "A" and d[3][2][0] == "use" and const_int(d[3][2][1]) in (0, 1) for d in ds):
                flags.add(l)
            elif k_ in ("uint", "int") and l != 0 and len(ds) >= 2 and any(
                    d[2] == "A" and len(d[3][1]) == 1 and d[3][2][0] == "use" and const_int(d[3][2][1]) == 0 for d in ds):
                # a status accumulator `let mut m = 0; if len == N { .. m = ..; } .. return m`: its literal zero is a failure
                flags.add(l)

    def flag_of(op):
        l = operand_local(op)
        neg = False
        for _ in range(6):
            if l is None:
                return None
            if l in flags:
                return l, neg
            d = body.single_def(l)
            if d and d[2] == "A" and d[3][2][0] == "use":
                l = operand_local(d[3][2][1])
            elif d and d[2] == "A" and d[3][2][0] == "cast" and d[3][2][1] == "IntToInt":
                l = operand_local(d[3][2][2])
            elif d and d[2] == "A" and d[3][2][0] == "un" and d[3][2][1] == "Not":
                l = operand_local(d[3][2][2])
                neg = not neg
            else:
                return None
        return None

    def really_success(x, known):
        """block x is in `targets`; with the flag values known on this path, does it give the result a non-failure value?"""
        kn = dict(known)
        for s_ in body.blocks[x]["s"]:
            if s_[0] != "A":
                continue
            if len(s_[1]) == 1 and s_[1][0] in flags:
                c = const_int(s_[2][1]) if s_[2][0] == "use" else None
                if c is not None:
                    kn[s_[1][0]] = c
                else:
                    kn.pop(s_[1][0], None)
            if s_[1][0] == 0 and not _failure_rvalue(s_[2]):
                rv = s_[2]
                o = rv[1] if rv[0] == "use" else rv[2] if rv[0] == "cast" else None
                fo = flag_of(o) if o is not None and len(s_[1]) == 1 else None
                if fo is not None and not fo[1] and kn.get(fo[0]) == 0:
                    continue        # `return m` on a path where m still holds its literal zero
                return True
        t_ = body.blocks[x]["t"]
        return t_[0] == "call" and bool(t_[3]) and t_[3][0] == 0

    def reach_from(a):
        out, wk = set(), [a]
        while wk:
            x_ = wk.pop()
            for y_ in body.succ[x_]:
                if y_ not in out:
                    out.add(y_)
                    wk.append(y_)
        return out

    # flag values already fixed when `start` is entered: a literal definition that dominates `start` while no other
    # definition of the flag can reach it (`let mut m = 0; if len == N { .. m = ..; }` seen from the `len != N` edge)
    init = {}
    for l in flags:
        ds = body.defs().get(l, [])
        cds = [d for d in ds if d[2] == "A" and len(d[3][1]) == 1 and d[3][2][0] == "use" and const_int(d[3][2][1]) is not None]
        if len(cds) != 1 or not body.dominates(cds[0][0], start) or cds[0][0] == start:
            continue
        others = [d for d in ds if d is not cds[0]]
        if all(start not in reach_from(d[0]) and d[0] != start for d in others):
            init[l] = const_int(cds[0][3][2][1])

    seen = set()
    st = [(start, frozenset(init.items()))]
    steps = 0
    while st and steps < 100000:
        steps += 1
        x, fv = st.pop()
        if (x, fv) in seen:
            continue
        seen.add((x, fv))
        if x in targets and really_success(x, dict(fv)):
            return True
        known = dict(fv)
        for s_ in body.blocks[x]["s"]:
            if s_[0] == "A" and len(s_[1]) == 1 and s_[1][0] in flags:
                c = const_int(s_[2][1]) if s_[2][0] == "use" else None
                if c is not None and (c in (0, 1) or facts.ty(body.local_ty(s_[1][0])).get("k") != "bool"):
                    known[s_[1][0]] = c
                else:
                    known.pop(s_[1][0], None)
        t = body.blocks[x]["t"]
        if t[0] == "call" and t[3] and len(t[3]) == 1:
            known.pop(t[3][0], None)
        nfv = frozenset(known.items())
        if t[0] == "switch":
            fo = flag_of(t[1])
            if fo is not None and fo[0] in known and (not fo[1] or facts.ty(body.local_ty(fo[0])).get("k") == "bool"):
                val = known[fo[0]] ^ (1 if fo[1] else 0)
                tgt = None
                for v, b_ in t[2]:
                    if int(v) == val:
                        tgt = b_
                if tgt is None:
                    tgt = t[3]
                st.append((tgt, nfv))
                continue
        for y in body.succ[x]:
            st.append((y, nfv))
    return False


def reject_ok(facts, site, memo):
    """True: some switch on this comparison has an edge from which no success value is reachable; False: the
    comparison is branched on but every outcome can still reach a success value; None: not used as a branch."""
    if site in memo:
        return memo[site]
    fid, bi, bl = site
    fn = facts.fns.get(fid)
    res = None
    if fn is not None and bi is not None:
        body = Body(fn)
        rt = facts.ty(body.local_ty(0))
        if not (rt.get("k") == "tuple" and not rt.get("elems")):
            succ = success_blocks(body)
            switches = []
            if bl is None:
                switches.append(bi)
            else:
                for sb in body.reach:
                    t = body.blocks[sb]["t"]
                    if t[0] != "switch":
                        continue
                    l = operand_local(t[1])
                    for _ in range(6):
                        if l is None or l == bl:
                            break
                        d = body.single_def(l)
                        if d and d[2] == "A" and d[3][2][0] == "use":
                            l = operand_local(d[3][2][1])
                        elif d and d[2] == "A" and d[3][2][0] == "un" and d[3][2][1] == "Not":
                            l = operand_local(d[3][2][2])
                        else:
                            l = None
                    if l == bl and sb in body.reach:
                        switches.append(sb)
            for sb in switches:
                t = body.blocks[sb]["t"]
                edges = [b for _v, b in t[2]] + [t[3]]
                if any(not _reaches_any(body, e, succ, facts) for e in edges):
                    res = True
                    break
                res = False
    memo[site] = res
    return res


_calltree_memo = {}


def calltree(facts, fid):
    key = (id(facts), fid)
    if key in _calltree_memo:
        return _calltree_memo[key]
    seen = {fid}
    work = [fid]
    while work:
        fn = facts.fns.get(work.pop())
        if fn is None:
            continue
        for b in fn["blocks"]:
            t = b["t"]
            if t[0] == "call" and t[1].get("id") in facts.fns and t[1]["id"] not in seen:
                seen.add(t[1]["id"])
                work.append(t[1]["id"])
    _calltree_memo[key] = seen
    return seen


def reject_verdicts(facts, eng, fn, have, labmap, pat, memo):
    """[(verdict, site, fact string)] for the comparison sites (inside fn's call tree) of the facts matching pat."""
    tree = calltree(facts, fn["id"])
    out = []
    for h in have:
        if re.fullmatch(pat, h):
            for lab in labmap.get(h, ()):
                if lab[0] in ("cmp", "cmpm"):
                    for site in eng.fact_sites.get(lab, ()):
                        if site[0] in tree:
                            out.append((reject_ok(facts, site, memo), site, h))
    return out


def result_labels(summ):
    out = set(summ.ret)
    for v in summ.ret_cells.values():
        out |= v
    return out


def gate_strings(summ, include_out=False, pol=None, fn=None, labmap=None):
    labs = result_labels(summ)
    if include_out:
        for v in summ.out.values():
            labs |= v
    out = set()
    for l in labs:
        if isinstance(l, tuple) and l and l[0] in FACT_TAGS:
            s = label_str(l, pol, fn)
            if s:
                out.add(s)
                if labmap is not None:
                    labmap.setdefault(s, set()).add(l)
    # `x < c || x > c` is the test `x != c` spelled as two range tests (canonically `Lt c` and `Lt c+1`)
    for s in sorted(out):
        m = re.fullmatch(r"((?:lencmp|elemcmp|valcmp):.*) Lt (\d+)", s)
        if m:
            nxt = "%s Lt %d" % (m.group(1), int(m.group(2)) + 1)
            if nxt in out:
                syn = "%s Ne %s" % (m.group(1), m.group(2))
                if syn not in out:
                    out.add(syn)
                    if labmap is not None:
                        labmap.setdefault(syn, set()).update(labmap.get(s, set()) | labmap.get(nxt, set()))
    return out


def field_strings(summ, field, pol, fn=None):
    labs = set()
    for path, v in summ.ret_cells.items():
        if not path or path[0] == field:
            labs |= v
    out = set()
    for l in labs:
        if isinstance(l, tuple) and l and l[0] in FACT_TAGS:
            s_ = label_str(l, pol, fn)
            if s_:
                out.add(s_)
    return out


def subst_consts(facts, fn, pat):
    """{const:NAME} / {pow2:NAME}: value of the module-level const NAME next to fn's type."""
    if "{" not in pat:
        return pat
    mod = "::".join(norm_name(fn["name"]).split("::")[:-2])

    def rep(m):
        kind, nm = m.group(1), m.group(2)
        rec = facts.data.get(mod + "::" + nm)
        if rec is None or "bytes" not in rec:
            return "<missing const %s>" % nm
        v = int.from_bytes(bytes.fromhex(rec["bytes"]), "little")
        return str(1 << v) if kind == "pow2" else str(v)
    return re.sub(r"\{(const|pow2):(\w+)\}", rep, pat)


def check_call_args(facts, run, prop, table, cfg):
    """G10: a wrapper must pass the specified constant flags to the shared inner routine."""
    n = 0
    for ent in table.get("call_args", []):
        if prop not in ent["props"]:
            continue
        matched = [fn for fn in facts.fns.values() if re.fullmatch(ent["fn"], norm_name(fn["name"]))]
        if not matched:
            run.oblige(ok=False)
            run.add(Finding("G0", ent["fn"], "gates: anchor function %s not found" % ent["fn"], config=cfg, prop=prop))
            continue
        for fn in matched:
            n += 1
            ok = False
            detail = "no call to %s" % ent["callee"]
            calls_ = [b["t"] for b in fn["blocks"] if b["t"][0] == "call" and re.fullmatch(ent["callee"], norm_name(b["t"][1]["f"]))]
            renamed_pi = None
            if not calls_ and ent.get("params_idx"):
                # the shared inner routine under another (private) name: the one call into the same module whose callee
                # has the parameter count of a reviewed inner routine; the reviewed positions apply
                mod = "::".join(norm_name(fn["name"]).split("::")[:2]) + "::"
                for b in fn["blocks"]:
                    t = b["t"]
                    tg = facts.fns.get(t[1].get("id")) if t[0] == "call" and t[1].get("l") else None
                    if tg is None or not norm_name(tg["name"]).startswith(mod) or tg.get("reach"):
                        continue
                    for rn, pi_ in sorted(ent["params_idx"].items()):
                        same_owner = rn.split("::")[-2] == norm_name(tg["name"]).split("::")[-2]
                        if pi_.get("argc") == tg["argc"] and same_owner:
                            calls_.append(t)
                            renamed_pi = pi_
                            break
                    if renamed_pi:
                        break
            if not calls_:
                # the wrapper reaches the inner routine only through a private intermediary (`verify_variant(SigVariant {..})`):
                # the constants travel inside a value; which ones arrive is not decided here (and not reported)
                inner = [g_ for g_ in calltree(facts, fn["id"]) if g_ != fn["id"] and g_ in facts.fns
                         and re.fullmatch(ent["callee"], norm_name(facts.fns[g_]["name"]))]
                if inner:
                    run.oblige()
                    run.stats = getattr(run, "stats", {})
                    run.stats.setdefault("g10_undecided", []).append(fn["name"])
                    continue
            for t in calls_:
                tgt = facts.fns.get(t[1]["id"])
                if tgt is None:
                    continue
                ok = True
                pi = renamed_pi or (ent.get("params_idx") or {}).get(norm_name(tgt["name"]))
                plist = [(int(k_) - 1, v_, k_) for k_, v_ in pi.items() if k_ != "argc"] if pi else None
                for pname, want in (ent["params"].items() if plist is None else [(x[2], x[1]) for x in plist]):
                    idx = None
                    if plist is not None:
                        idx = int(pname) - 1
                        pname = tgt["locals"][idx + 1][1] if idx + 1 < len(tgt["locals"]) else pname
                    for i in range(1, tgt["argc"] + 1):
                        if plist is None and tgt["locals"][i][1] == pname:
                            idx = i - 1
                    if idx is None or idx >= len(t[2]):
                        ok = False
                        detail = "callee has no parameter `%s`" % pname
                        break
                    c = const_int(t[2][idx])
                    if c != want:
                        ok = False
                        detail = "argument `%s` is %s, specified constant is %s" % (
                            pname, "not a constant" if c is None else c, want)
                        break
                break
            run.oblige(ok=ok)
            if not ok:
                run.add(Finding("G10", "%s|%s" % (norm_name(fn["name"]), ",".join(sorted(ent["params"]))),
                                "gates: %s (%s:%s): %s -- %s" % (fn["name"], fn["file"], fn["line"], detail, ent["why"]),
                                config=cfg, site="%s:%s" % (fn["file"], fn["line"]), prop=prop))
    return n


def check_failmask(facts, run, prop, table, cfg, eng):
    """G8 (dependence form): status 0 must force the documented failure value, hence every data-dependent leaf
    of the output depends on every check fact the returned status depends on."""
    n = 0
    for ent in table.get("failmask", []):
        if prop not in ent["props"]:
            continue
        matched = [fn for fn in facts.fns.values() if re.fullmatch(ent["fn"], norm_name(fn["name"]))]
        if not matched:
            run.oblige(ok=False)
            run.add(Finding("G0", ent["fn"], "gates: anchor function %s not found" % ent["fn"], config=cfg, prop=prop))
        for fn in matched:
            rt = facts.ty(fn["locals"][0][0])
            if not (rt.get("k") == "uint" and rt.get("bits") == 32):
                continue
            n += 1
            summ = eng.summary(fn)

            def fset(labels):
                return set(label_str(l, eng.policy, fn) for l in labels if isinstance(l, tuple) and l and l[0] in FACT_TAGS)
            rf = fset(result_labels(summ))
            cells = {p_: l for (i, p_), l in summ.out.items() if i == 1}
            leaves = [p_ for p_ in cells if not any(q != p_ and len(q) > len(p_) and taint.is_prefix(p_, q) for q in cells)]
            bad = None
            for p_ in leaves:
                labels = taint.EMPTY
                for q, l in cells.items():
                    if taint.is_prefix(q, p_) or (len(q) == len(p_) and taint.is_prefix(q, p_)):
                        labels |= l
                if not any(isinstance(l, tuple) and l and l[0] in ("m", "v") for l in labels):
                    continue
                miss = rf - fset(labels)
                if miss:
                    bad = (p_, sorted(miss))
                    break
            run.oblige(ok=bad is None)
            if bad:
                run.add(Finding("G8", norm_name(fn["name"]),
                                "gates G8: in %s (%s:%s) output component %s does not depend on %s, on which the returned status depends: "
                                "a failure reported through the status would leave that component un-masked -- %s" % (
                                    fn["name"], fn["file"], fn["line"], list(bad[0]), bad[1][0], ent["why"]),
                                config=cfg, site="%s:%s" % (fn["file"], fn["line"]), prop=prop))
    return n


def check_maskbytes(facts, run, prop, table, cfg, eng):
    """G9b: in the listed functions, every byte mask derived from a status word (`(!ok) as u8`) depends on every
    check fact that the returned status depends on (a stale or partial status must not drive the substitution)."""
    n = 0
    for ent in table.get("maskbytes", []):
        if prop not in ent["props"]:
            continue
        matched = [fn for fn in facts.fns.values() if re.fullmatch(ent["fn"], norm_name(fn["name"]))]
        if not matched:
            run.oblige(ok=False)
            run.add(Finding("G0", ent["fn"], "gates: anchor function %s not found" % ent["fn"], config=cfg, prop=prop))
        for fn in matched:
            summ = eng.summary(fn)

            def fset(labels):
                return set(label_str(l, eng.policy, fn) for l in labels if isinstance(l, tuple) and l and l[0] in FACT_TAGS)
            st_labels = taint.EMPTY
            for path, v in summ.ret_cells.items():
                if path and path[0] == ent.get("status_field", 1):
                    st_labels |= v
            rf = set(x for x in fset(st_labels) if re.fullmatch(ent["facts"], x))
            def tiny_helper(site):
                # a mask byte made by a small private helper (`fn status_to_byte(ok: u32) -> u8`) counts as made here
                if not (isinstance(site, tuple) and len(site) == 3 and not isinstance(site[2], tuple)):
                    return False
                cands = [g_ for g_ in facts.fns.values() if g_["name"] == site[1]]
                return bool(cands) and all((not g_.get("reach")) and len(g_["blocks"]) <= 4 for g_ in cands)
            masks = [(k, v) for k, v in summ.sinks.items() if k[0] == "maskbyte" and (not isinstance(k[1], tuple) or tiny_helper(k[1]))]
            n += 1
            run.oblige(ok=bool(masks))
            if not masks:
                run.add(Finding("G9b", norm_name(fn["name"]) + "|none",
                                "gates G9b: %s (%s:%s) has no byte mask derived from its status (failure substitution missing?) -- %s" % (
                                    fn["name"], fn["file"], fn["line"], ent["why"]), config=cfg, site="%s:%s" % (fn["file"], fn["line"]), prop=prop))
                continue
            for (k, v) in masks:
                miss = rf - fset(v)
                run.oblige(ok=not miss)
                if miss:
                    run.add(Finding("G9b", norm_name(fn["name"]),
                                    "gates G9b: in %s (%s:%s) the substitution mask does not depend on %s although the returned status does -- %s" % (
                                        fn["name"], fn["file"], k[1] if not isinstance(k[1], tuple) else k[1][0], sorted(miss)[0], ent["why"]),
                                    config=cfg, site="%s:%s" % (fn["file"], k[1] if not isinstance(k[1], tuple) else k[1][0]), prop=prop))
    return n


class _Plain(taint.Policy):
    implicit = False


class _NoncePolicy(taint.Policy):
    """marks what a reducing scalar decoder returns"""
    implicit = False

    def call_labels(self, eng, fn, bi, callee, argvals):
        if callee.get("l") and re.search(r"::(set_)?decode_reduce$", norm_name(callee["f"])):
            return frozenset([("hred",)])
        return taint.EMPTY


class _NonceAnalysis(taint.FnAnalysis):
    """records, for every `update(..)` call made directly in the analysed function, the labels of the bytes fed"""

    def call(self, bi, t, st, ctrl):
        if re.search(r"::update$", norm_name(t[1]["f"])) and len(t[2]) >= 2:
            lab = taint.EMPTY
            for a in t[2][1:]:
                l, p = self.operand(a, st)
                lab |= l | self.pointee_labels(p, st)
            self.eng.nonce_events.setdefault(self.fn["id"], []).append((t[5], lab))
        super().call(bi, t, st, ctrl)


class _NonceEngine(taint.Engine):
    def __init__(self, *a, **kw):
        taint.Engine.__init__(self, *a, **kw)
        self.nonce_events = {}

    def summary(self, fn):
        fid = fn["id"]
        s = self.summaries.get(fid)
        if s is not None:
            return s
        if fid in self.in_progress:
            c = taint.Summary()
            c.conservative = True
            return c
        self.in_progress.add(fid)
        try:
            s = _NonceAnalysis(self, fn).run()
        finally:
            self.in_progress.discard(fid)
        self.summaries[fid] = s
        return s


def check_nonce_input(facts, run, prop, table, cfg):
    """G13 (RFC 6979 bits2octets): in ECDSA `sign_hash` the message hash may enter the nonce PRF only after reduction
    modulo the group order: every `update(..)` of the nonce derivation whose bytes depend on the hash parameter must also
    depend on the result of a reducing scalar decoder (`h = decode_reduce(hv); update(h.encode())`)."""
    ents = [e for e in table.get("nonce_input", []) if prop in e["props"]]
    n = 0
    for ent in ents:
        matched = [fn for fn in facts.fns.values() if re.fullmatch(ent["fn"], norm_name(fn["name"]))]
        if not matched:
            run.oblige(ok=False)
            run.add(Finding("G0", ent["fn"], "gates: anchor function %s not found" % ent["fn"], config=cfg, prop=prop))
        for fn in matched:
            hp = [ent["param_idx"]] if ent.get("param_idx") else [i for i in range(1, fn["argc"] + 1) if fn["locals"][i][1] == ent["param"]]
            if not hp or hp[0] > fn["argc"]:
                continue
            eng = _NonceEngine(facts, _NoncePolicy())
            eng.summary(fn)
            evs = eng.nonce_events.get(fn["id"], [])
            seen_red = False
            for line, lab in evs:
                from_h = any(isinstance(a, tuple) and len(a) == 3 and a[0] in ("m", "v") and a[1] == hp[0] for a in lab)
                red = ("hred",) in lab
                if not from_h:
                    continue
                n += 1
                ok = red
                seen_red = seen_red or red
                run.oblige(ok=ok)
                if not ok:
                    run.add(Finding("G13", "%s|raw" % norm_name(fn["name"]),
                                    "gates G13: in %s (%s:%s) bytes of the hash parameter `%s` are fed to the nonce derivation without "
                                    "passing through a reducing scalar decoder -- %s" % (fn["name"], fn["file"], line, fn["locals"][hp[0]][1] or ent["param"], ent["why"]),
                                    config=cfg, site="%s:%s" % (fn["file"], line), prop=prop))
            run.oblige(ok=seen_red)
            if not seen_red:
                run.add(Finding("G13", "%s|none" % norm_name(fn["name"]),
                                "gates G13: in %s (%s:%s) no `update(..)` of the nonce derivation depends on the reduced message hash -- %s" % (
                                    fn["name"], fn["file"], fn["line"], ent["why"]),
                                config=cfg, site="%s:%s" % (fn["file"], fn["line"]), prop=prop))
            elif n % 2 == 0:
                run.sample("G13 %s: the hash enters the nonce PRF only as decode_reduce(..).encode() (config %s)" % (fn["name"], cfg))
    return n


def check_tiling(facts, run, prop, table, cfg, eng):
    """G5 wire layout: a fixed-length decoder hands sub-slices of its input to the component decoders; those sub-slices
    must tile the input exactly -- [0, L) without gap or overlap, L being the length the decoder insists on.  (A point
    read from `buf[NE..NS+NE]` instead of `buf[NS..NS+NE]` leaves a gap whenever NS != NE.)"""
    ents = [e for e in table.get("tiling", []) if prop in e["props"]]
    n = 0
    for ent in ents:
        matched = [fn for fn in facts.fns.values() if re.fullmatch(ent["fn"], norm_name(fn["name"]))]
        if not matched:
            run.oblige(ok=False)
            run.add(Finding("G0", ent["fn"], "gates: anchor function %s not found" % ent["fn"], config=cfg, prop=prop))
        for fn in matched:
            summ = eng.summary(fn)
            labs = result_labels(summ)
            L = None
            ranges = set()
            for l in labs:
                if not (isinstance(l, tuple) and l):
                    continue
                if l[0] == "cmp" and l[1] == ("len", ("p", 1, 0, None)) and l[2] in ("Ne", "Eq"):
                    try:
                        L = int(l[3])
                    except ValueError:
                        pass
                elif l[0] == "cmp" and l[1][0] == "elem" and l[1][1] == ("p", 1, 0, None) and l[1][2][0] == "k":
                    ranges.add((l[1][2][1], l[1][2][1] + 1))        # a byte tested on its own (Ed448's 57th scalar byte)
                elif l[0] == "cmpm" and l[1] == ("len", ("p", 1, 0, None)):
                    pass
                elif l[0] == "call":
                    # sub-slices of the input handed to component decoders by this function or by private helpers it
                    # calls (what a public component decoder does with its own field is its business)
                    encl = facts.fns.get(l[4][0])
                    if encl is None or (encl["id"] != fn["id"] and encl.get("reach")):
                        continue
                    for x in l[2]:
                        while x is not None and x[0] == "bswap":
                            x = x[1]
                        if x is not None and x[0] == "p" and x[1] == 1 and x[3] is not None and not (x[2] == 0 and x[3] is None):
                            ranges.add((x[2], x[3]))
            if L is None or not ranges:
                continue          # not a fixed-length decoder built from component decoders
            n += 1
            # the fields are the maximal ranges inside [0, L): component decoders re-slice their own field further
            inside = [r_ for r_ in ranges if 0 <= r_[0] < r_[1] <= L and r_ != (0, L)]
            rs = sorted(r_ for r_ in inside if not any(o != r_ and o[0] <= r_[0] and r_[1] <= o[1] for o in inside))
            if not rs:
                continue
            ok = rs[0][0] == 0 and rs[-1][1] == L and all(rs[i][1] == rs[i + 1][0] for i in range(len(rs) - 1))
            run.oblige(ok=ok)
            if ok:
                if n % 6 == 0:
                    run.sample("G5 %s: component slices %s tile the %d-byte input (config %s)" % (fn["name"], rs, L, cfg))
            else:
                run.add(Finding("G5", norm_name(fn["name"]),
                                "gates G5: %s (%s:%s) requires a %d-byte input but hands the byte ranges %s to its component decoders: they "
                                "do not tile [0, %d) -- %s" % (fn["name"], fn["file"], fn["line"], L, rs, L, ent["why"]),
                                config=cfg, site="%s:%s" % (fn["file"], fn["line"]), prop=prop))
    return n


def check_independent(facts, run, prop, table, cfg):
    """G11: the value written through parameter `param` does not depend on its previous value."""
    ents = [e for e in table.get("independent", []) if prop in e["props"]]
    if not ents:
        return 0
    eng = taint.Engine(facts, _Plain())
    n = 0
    for ent in ents:
        matched = [fn for fn in facts.fns.values() if re.fullmatch(ent["fn"], norm_name(fn["name"]))]
        if not matched:
            run.oblige(ok=False)
            run.add(Finding("G0", ent["fn"], "gates: anchor function %s not found" % ent["fn"], config=cfg, prop=prop))
        for fn in matched:
            n += 1
            summ = eng.summary(fn)
            dep = set()
            for (i, path), labels in summ.out.items():
                if i != ent["param"]:
                    continue
                for a in labels:
                    if isinstance(a, tuple) and len(a) == 3 and a[0] == "m" and a[1] == ent["param"]:
                        dep.add(path)
            run.oblige(ok=not dep)
            if dep:
                run.add(Finding("G11", norm_name(fn["name"]),
                                "gates G11: the result of %s (%s:%s) depends on the previous value of its output operand (fields %s) -- %s" % (
                                    fn["name"], fn["file"], fn["line"], sorted(dep, key=str)[:4], ent["why"]),
                                config=cfg, site="%s:%s" % (fn["file"], fn["line"]), prop=prop))
    return n


def run_gates(facts, run, prop):
    table = load_table()
    eng = GateEngine(facts, GatePolicy(facts))
    cfg = facts.config
    n_gates = 0
    n_fns = 0
    n12 = 0
    memo12 = {}
    for ent in table["functions"]:
        if prop not in ent["props"] and not (prop == "C18" and "C05" in ent["props"]):
            continue
        if ent.get("configs") and cfg not in ent["configs"]:
            continue
        matched = [fn for fn in facts.fns.values() if re.fullmatch(ent["fn"], norm_name(fn["name"]))]
        if not matched:
            if ent.get("optional"):
                continue
            run.oblige(ok=False)
            run.add(Finding("G0", ent["fn"], "gates: anchor function %s not found (rule would pass vacuously)" % ent["fn"],
                            config=cfg, prop=prop))
            continue
        for fn in matched:
            n_fns += 1
            summ = eng.summary(fn)
            labmap = {}
            have_all = gate_strings(summ, include_out=ent.get("include_out", False), pol=eng.policy, fn=fn, labmap=labmap)
            for g in ent["gates"]:
                if g.get("props") and prop not in g["props"] and prop != "C18":
                    continue
                n_gates += 1
                pat = subst_consts(facts, fn, g["src"])
                have = have_all
                if "field" in g:
                    have = field_strings(summ, g["field"], eng.policy, fn)
                ok = len([h for h in have if re.fullmatch(pat, h)]) >= g.get("min", 1)
                run.oblige(ok=ok)
                if ok:
                    if n_gates % 9 == 0:
                        run.sample("%s: gate /%s/ reaches the result (%s)" % (fn["name"], pat, g["why"]))
                    # G12: a test that rejected by a branch on the reviewed tree (gates.json "rejects") must still do so:
                    # when the matching comparisons are branched on, at least one must have an outcome that cannot
                    # reach a success value (otherwise the test is evaluated but no longer rejects anything)
                    if g.get("rejects"):
                        verdicts = reject_verdicts(facts, eng, fn, have, labmap, pat, memo12)
                        if verdicts and any(v[0] is not None for v in verdicts):
                            n12 += 1
                            good = any(v[0] for v in verdicts)
                            run.oblige(ok=good)
                            if not good:
                                v = [x for x in verdicts if x[0] is False][0]
                                sfn = facts.fns[v[1][0]]
                                tt = sfn["blocks"][v[1][1]]["t"]
                                sline = tt[4] if tt[0] == "switch" else sfn["line"]
                                run.add(Finding("G12", "%s|%s" % (norm_name(fn["name"]), pat),
                                                "gates G12: in %s the required test `%s` (made in %s, %s:%s) is branched on, but both outcomes "
                                                "can still reach a success value: the test no longer rejects -- %s" % (
                                                    fn["name"], v[2], sfn["name"], sfn["file"], sline, g["why"]),
                                                config=cfg, site="%s:%s" % (sfn["file"], sline), prop=prop))
                else:
                    run.add(Finding("G3", "%s|%s" % (norm_name(fn["name"]), pat),
                                    "gates: in %s (%s:%s) the result depends on %d check fact(s) matching /%s/ where the specification needs %d -- %s" % (
                                        fn["name"], fn["file"], fn["line"], len([h for h in have if re.fullmatch(pat, h)]), pat, g.get("min", 1), g["why"]),
                                    config=cfg, site="%s:%s" % (fn["file"], fn["line"]), prop=prop))
            for g in ent.get("forbid", []):
                n_gates += 1
                pat = g["src"]
                bad = [h for h in have_all if re.fullmatch(pat, h)]
                run.oblige(ok=not bad)
                if bad:
                    run.add(Finding("G1", "%s|forbid|%s" % (norm_name(fn["name"]), pat),
                                    "gates: in %s (%s:%s) the result depends on %s -- %s" % (
                                        fn["name"], fn["file"], fn["line"], bad[0], g["why"]),
                                    config=cfg, site="%s:%s" % (fn["file"], fn["line"]), prop=prop))
    n_ca = check_call_args(facts, run, prop, table, cfg)
    n_ca += check_independent(facts, run, prop, table, cfg)
    n_ca += check_failmask(facts, run, prop, table, cfg, eng)
    n_ca += check_maskbytes(facts, run, prop, table, cfg, eng)
    n_ca += check_nonce_input(facts, run, prop, table, cfg)
    n_til = check_tiling(facts, run, prop, table, cfg, eng)
    if any(prop in e["props"] for e in table.get("tiling", [])) and n_til < 20:
        run.oblige(ok=False)
        run.add(Finding("G5", "anchor", "gates G5: only %d fixed-length composite decoders found (floor 20)" % n_til, config=cfg, prop=prop))
    if prop == "C16":
        from . import lmsstate
        lmsstate.run_lmsstate(facts, run, prop)
    run.stats = getattr(run, "stats", {})
    run.stats.update(gate_fns=n_fns, gates=n_gates, reject_edge_rules=n12, call_arg_rules=n_ca, engine=eng.stats)
    return eng
