"""Pretty-printer for mirfacts function records (debugging / --explain)."""
import sys


def pl(p):
    s = "_%d" % p[0]
    for e in p[1:]:
        if e == "*":
            s = "(*%s)" % s
        elif e[0] == "f":
            s += ".%d" % e[1]
        elif e[0] == "i":
            s += "[_%d]" % e[1]
        elif e[0] == "c":
            s += "[%s%d of %d]" % ("-" if e[3] else "", e[1], e[2])
        elif e[0] == "s":
            s += "[%d:%s%d]" % (e[1], "-" if e[3] else "", e[2])
        elif e[0] == "d":
            s += " as v%d" % e[1]
        else:
            s += "?"
    return s


def op(o):
    if o[0] == "cp":
        return pl(o[1])
    if o[0] == "mv":
        return "move " + pl(o[1])
    if o[0] == "k":
        if o[1] is None:
            return "const<%s>" % (o[3].get("sym") if len(o) > 3 else "?")
        return "const %s" % o[1]
    if o[0] == "kc":
        d = o[2]
        return "const{%s%s}" % (d.get("item", d.get("d", ""))[:60], " str=%r" % d["str"] if "str" in d else "")
    if o[0] == "fn":
        return "fn " + o[1]["f"]
    return str(o)


def rv(r):
    k = r[0]
    if k == "use":
        return op(r[1])
    if k == "bin":
        return "%s(%s, %s)" % (r[1], op(r[2]), op(r[3]))
    if k == "un":
        return "%s(%s)" % (r[1], op(r[2]))
    if k == "cast":
        return "%s as t%d [%s]" % (op(r[2]), r[3], r[1])
    if k == "ref":
        return "&%s%s" % ("mut " if r[1] else "", pl(r[2]))
    if k == "rawptr":
        return "&raw %s" % pl(r[2])
    if k == "agg":
        return "%s{%s}" % (r[1].get("path", r[1]["k"]) + (":v%d" % r[1]["variant"] if "variant" in r[1] else ""),
                           ", ".join(op(x) for x in r[2]))
    if k == "discr":
        return "discr(%s)" % pl(r[1])
    if k == "repeat":
        return "[%s; %s]" % (op(r[1]), r[2])
    return str(r)


def show(fn, facts=None, out=sys.stdout):
    w = out.write
    w("fn %s  [%s:%s] argc=%d\n" % (fn["name"], fn["file"], fn["line"], fn["argc"]))
    for i, (t, n) in enumerate(fn["locals"]):
        ts = facts.ty(t)["s"] if facts else "t%d" % t
        w("  let _%d: %s%s\n" % (i, ts, "  // %s" % n if n else ""))
    for bi, b in enumerate(fn["blocks"]):
        w(" bb%d%s:\n" % (bi, " (cleanup)" if b.get("c") else ""))
        for s in b["s"]:
            if s[0] == "A":
                w("    %s = %s   @%s\n" % (pl(s[1]), rv(s[2]), s[3]))
            else:
                w("    %s\n" % (s,))
        t = b["t"]
        if t[0] == "call":
            w("    %s = %s(%s) -> %s   @%s %s\n" % (pl(t[3]), t[1]["f"], ", ".join(op(a) for a in t[2]),
                                                  "bb%s" % t[4] if t[4] is not None else "!", t[5], t[6] or ""))
        elif t[0] == "switch":
            w("    switch %s %s else bb%d   @%s\n" % (op(t[1]), ["%s->bb%d" % (v, b_) for v, b_ in t[2]], t[3], t[4]))
        elif t[0] == "assert":
            w("    assert(%s == %s, %s %s) -> bb%d   @%s\n" % (op(t[1]), t[2], t[3], [op(x) for x in t[4]], t[5], t[6]))
        elif t[0] == "goto":
            w("    goto bb%d\n" % t[1])
        elif t[0] == "drop":
            w("    drop %s -> bb%d\n" % (pl(t[1]), t[2]))
        else:
            w("    %s\n" % t[0])


if __name__ == "__main__":
    from . import facts
    f = facts.load(sys.argv[2] if len(sys.argv) > 2 else "x64")
    for fn in f.fns.values():
        if sys.argv[1] in fn["name"]:
            show(fn, f)
