"""E5 consttab: const-evaluated tables and curve constants against their
mathematical definition (C04 table clause, C13 table clause).

Input: the bytes of every static / monomorphic const as evaluated by rustc on
the current tree (mirfacts 'data' records) plus type layouts.  Oracle: the
reference arithmetic in refmath.py.  Every entry of every table is checked."""
import re

from . import refmath as rm
from .report import Finding

P25519 = 2**255 - 19
P448 = 2**448 - 2**224 - 1
PP256 = 2**256 - 2**224 + 2**192 + 2**96 - 1
PSECP = 2**256 - 2**32 - 977


def _parse_const_arg(s):
    s = s.strip()
    if s.endswith("u64::MAX"):
        return 2**64 - 1
    if s.endswith("u32::MAX"):
        return 2**32 - 1
    for suf in ("_u64", "_u32", "_usize", "u64", "u32", "usize"):
        if s.endswith(suf):
            s = s[: -len(suf)]
            break
    return int(s, 0)


class Decoder:
    def __init__(self, facts):
        self.f = facts

    def field_kind(self, td):
        """Return (kind, params) if td is a recognised field-element type."""
        if td.get("k") != "adt":
            return None
        p = td["path"]
        if p.endswith("gf255_m64::GF255") or p.endswith("w32::gf255::GF255"):
            return ("plain", 2**255 - _parse_const_arg(td["args"][0]))
        if p.endswith("gf255_m51::GF255"):
            return ("m51", 2**255 - _parse_const_arg(td["args"][0]))
        if p.endswith("modint::ModInt256") or p.endswith("modint32::ModInt256ct"):
            a = [_parse_const_arg(x) for x in td["args"]]
            m = a[0] | (a[1] << 64) | (a[2] << 128) | (a[3] << 192)
            return ("monty", m, 256)
        if p.endswith("w64::gfsecp256k1::GFsecp256k1"):
            return ("plain", PSECP)
        if p.endswith("w64::gf448::GF448"):
            return ("plain", P448)
        if re.search(r"w32::gf448::(\w+::)?GF448$", p):
            return ("monty", P448, 448)
        if p.endswith("::GFb127"):
            return ("b127",)
        if p.endswith("::GFb254"):
            return ("b254",)
        return None

    def value(self, tid, b, off=0):
        td = self.f.ty(tid)
        k = td.get("k")
        fk = self.field_kind(td)
        if fk:
            raw = int.from_bytes(b[off:off + td["size"]], "little")
            if fk[0] == "plain":
                return raw % fk[1]
            if fk[0] == "m51":
                v = 0
                for i in range(5):
                    limb = int.from_bytes(b[off + 8 * i: off + 8 * i + 8], "little")
                    v += limb << (51 * i)
                return v % fk[1]
            if fk[0] == "monty":
                m, bits = fk[1], fk[2]
                return raw * pow(2**bits, -1, m) % m
            if fk[0] == "b127":
                return raw
            if fk[0] == "b254":
                return (raw & (2**128 - 1), raw >> 128)
        if k in ("uint", "bool", "char"):
            return int.from_bytes(b[off:off + td["size"]], "little")
        if k == "int":
            return int.from_bytes(b[off:off + td["size"]], "little", signed=True)
        if k == "array":
            et = self.f.ty(td["elem"])
            n = td["len"] if isinstance(td["len"], int) else (td["size"] // et["size"] if td.get("size") and et.get("size") else 0)
            return [self.value(td["elem"], b, off + i * et["size"]) for i in range(n)]
        if k == "tuple":
            return [self.value(e, b, off + o) for e, o in zip(td["elems"], td["offsets"])]
        if k == "adt" and "variants" in td and not td["enum"]:
            out = {}
            for name, ftid, foff, _vis in td["variants"][0][2]:
                out[name] = self.value(ftid, b, off + foff)
            return out
        raise ValueError("cannot decode type %s" % td.get("s"))

    def data(self, name):
        r = self.f.data.get(name)
        if r is None or "bytes" not in r:
            return None
        return self.value(r["ty"], bytes.fromhex(r["bytes"]))


# ---- curve models ----------------------------------------------------------

def _jq_model(p, a, b):
    """Double-odd curve y^2 = x(x^2 + a x + b); group of (e,u) Jacobi-quartic
    coordinates.  i*B in the group is i*Bc + ((i-1) mod 2)*N on the curve."""
    F = rm.Fp(p)
    W = rm.Weierstrass(F, 0, a % p, 0, b % p, 0)

    def to_curve(e, u):
        # x = 2b u^2 / ((1-e) - a u^2), y = x/u
        den = F.sub(F.sub(1, e), F.mul(a % p, F.mul(u, u)))
        x = F.div(F.mul(2 * b % p, F.mul(u, u)), den)
        return (x, F.div(x, u))

    def from_curve(P):
        x, y = P
        u = F.div(x, y)
        e = F.mul(F.mul(u, u), F.sub(x, F.div(b % p, x)))
        return (e, u)

    def on_quartic(e, u):
        u2 = F.mul(u, u)
        rhs = F.add(F.sub(F.mul((a * a - 4 * b) % p, F.mul(u2, u2)), F.mul(2 * a % p, u2)), 1)
        return F.eq(F.mul(e, e), rhs)

    def gmul(n, eu):
        Pc = to_curve(*eu)
        assert W.on_curve(Pc)
        Q = W.mul(n, Pc)
        e, u = from_curve(Q)
        if n % 2 == 0:
            e, u = F.neg(e), F.neg(u)
        return (e, u)

    return F, W, gmul, on_quartic


class Model:
    pass


def models():
    out = {}
    # edwards25519
    F = rm.Fp(P25519)
    d = F.div(F.neg(121665), 121666)
    E = rm.Edwards(F, -1, d)
    by = F.div(4, 5)
    bx = F.sqrt(F.div(F.sub(F.mul(by, by), 1), F.add(F.mul(d, F.mul(by, by)), 1)))
    if bx & 1:
        bx = F.neg(bx)
    m = Model(); m.F = F; m.E = E; m.B = (bx, by); m.d = d
    out["ed25519"] = m
    # edwards448
    F = rm.Fp(P448)
    E = rm.Edwards(F, 1, -39081)
    m = Model(); m.F = F; m.E = E; m.d = (-39081) % P448
    m.B = (224580040295924300187604334099896036246789641632564134246125461686950415467406032909029192869357953282578032075146446173674602635247710,
           298819210078481492676017930443930673437544040154080242095928241372331506189835876003536878655418784733982303233503462500531545062832660)
    out["ed448"] = m
    # P-256
    F = rm.Fp(PP256)
    b = 0x5AC635D8AA3A93E7B3EBBD55769886BC651D06B0CC53B0F63BCE3C3E27D2604B
    m = Model(); m.F = F; m.W = rm.Weierstrass(F, 0, 0, 0, PP256 - 3, b); m.b = b
    m.B = (0x6B17D1F2E12C4247F8BCE6E563A440F277037D812DEB33A0F4A13945D898C296,
           0x4FE342E2FE1A7F9B8EE7EB4A7C0F9E162BCE33576B315ECECBB6406837BF51F5)
    m.n = 0xFFFFFFFF00000000FFFFFFFFFFFFFFFFBCE6FAADA7179E84F3B9CAC2FC632551
    out["p256"] = m
    # secp256k1
    F = rm.Fp(PSECP)
    m = Model(); m.F = F; m.W = rm.Weierstrass(F, 0, 0, 0, 0, 7)
    m.B = (0x79BE667EF9DCBBAC55A06295CE870B07029BFCDB2DCE28D959F2815B16F81798,
           0x483ADA7726A3C4655DA4FBFC0E1108A8FD17B448A68554199C47D08FFB10D4B8)
    m.n = 0xFFFFFFFFFFFFFFFFFFFFFFFFFFFFFFFEBAAEDCE6AF48A03BBFD25E8CD0364141
    out["secp256k1"] = m
    # jq255e: y^2 = x(x^2 - 2) over GF(2^255-18651); generator (e,u) = (-3,-1)
    p = 2**255 - 18651
    F, W, gmul, onq = _jq_model(p, 0, -2)
    m = Model(); m.F = F; m.W = W; m.gmul = gmul; m.onq = onq; m.B = (p - 3, p - 1)
    m.r = 2**254 - 131528281291764213006042413802501683931
    out["jq255e"] = m
    # jq255s: y^2 = x(x^2 - x + 1/2) over GF(2^255-3957); generator u = 3
    p = 2**255 - 3957
    half = pow(2, -1, p)
    F, W, gmul, onq = _jq_model(p, -1, half)
    m = Model(); m.F = F; m.W = W; m.gmul = gmul; m.onq = onq
    m.B = (0x0F520B1BA747ADAC55E452A64612D10E6D7386B2348CC437104220CDA2789410, 3)
    m.r = 2**254 + 56904135270672826811114353017034461895
    out["jq255s"] = m
    # GLS254 (isogenous form): y^2 + xy = x^3 + a x^2 + b x, a = u, b = 1 + z^54
    F = rm.F2_254()
    a = (0, 1)
    b = (1 | (1 << 54), 0)
    m = Model(); m.F = F; m.W = rm.Weierstrass(F, F.one, a, F.zero, b, F.zero)
    m.a = a; m.b = b; m.sqrt_b = (1 | (1 << 27), 0)
    m.r = 2**253 + 83877821160623817322862211711964450037
    out["gls254"] = m
    return out


def gls_from_xs(m, x, s):
    """(x,s) -> (x,y) with s = y + x^2 + a x + b."""
    F = m.F
    y = F.add(F.add(F.add(s, F.mul(x, x)), F.mul(m.a, x)), m.b)
    return (x, y)


def gls_to_xs(m, P):
    F = m.F
    x, y = P
    s = F.add(F.add(F.add(y, F.mul(x, x)), F.mul(m.a, x)), m.b)
    return (x, s)


def gls_gmul(m, n, P):
    Q = m.W.mul(n, P)
    if n % 2 == 0:
        Q = m.W.add(Q, (m.F.zero, m.F.zero))
    return Q


EXPECTED_TABLES = {
    "ed25519": [("PRECOMP_B", 0), ("PRECOMP_B65", 65), ("PRECOMP_B130", 130), ("PRECOMP_B195", 195)],
    "ed448": [("PRECOMP_B", 0), ("PRECOMP_B75", 75), ("PRECOMP_B150", 150), ("PRECOMP_B225", 225),
              ("PRECOMP_B300", 300), ("PRECOMP_B375", 375)],
    "p256": [("PRECOMP_G", 0), ("PRECOMP_G65", 65), ("PRECOMP_G130", 130), ("PRECOMP_G195", 195)],
    "secp256k1": [("PRECOMP_G", 0), ("PRECOMP_G65", 65), ("PRECOMP_G130", 130), ("PRECOMP_G195", 195)],
    "jq255e": [("PRECOMP_B", 0), ("PRECOMP_B30", 30), ("PRECOMP_B65", 65), ("PRECOMP_B95", 95),
               ("PRECOMP_B130_ODD", 130)],
    "jq255s": [("PRECOMP_B", 0), ("PRECOMP_B65", 65), ("PRECOMP_B130", 130), ("PRECOMP_B195", 195)],
    "gls254": [("PRECOMP_B", 0), ("PRECOMP_B30", 30), ("PRECOMP_B65", 65), ("PRECOMP_B95", 95)],
}


def check_tables(facts, run, prop="C04"):
    """All precomputed generator tables.  Returns (entries_checked, nontrivial)."""
    dec = Decoder(facts)
    M = models()
    cfg = facts.config
    entries = 0
    tables_seen = 0

    def bad(curve, table, idx, coord, why):
        run.add(Finding("T1", "%s::%s[%s].%s" % (curve, table, idx, coord),
                        "consttab: crrl::%s::%s entry %s coordinate %s: %s" % (curve, table, idx, coord, why),
                        config=cfg, site=_site(facts, "crrl::%s::%s" % (curve, table)), prop=prop))

    # Tables are found by what they are, not by what they are called: every static in the curve's module tree whose
    # type is an array of the curve's table element type.  Which multiple of the generator a table starts at is read off
    # its first entry (it must be 2^k * G for one of the specified shifts k); every shift must be served exactly once.
    ELEM = {"ed25519": ("PointDuif",), "ed448": ("PointAffine",), "p256": ("PointAffine",), "secp256k1": ("PointAffine",),
            "jq255s": ("PointAffineExtended",), "jq255e": ("PointAffineExtended", "GF255<"), "gls254": ("GFb254",)}

    def candidates(curve):
        out = []
        for name, r in sorted(facts.data.items()):
            if not r["kind"].startswith("Static") or not name.startswith("crrl::%s::" % curve):
                continue
            ts = facts.ty(r["ty"]).get("s", "") if isinstance(r.get("ty"), int) else ""
            m_ = re.fullmatch(r"\[(.+); (\d+)\]", ts)
            if not m_:
                continue
            et, n_ = m_.group(1), int(m_.group(2))
            if not any(e in et for e in ELEM[curve]):
                continue
            if "GF255<" in et and n_ != 48:
                continue
            if "GFb254" in et and n_ != 32:
                continue
            if ("Point" in et) and n_ not in (8, 16):
                continue
            out.append((name, et, n_))
        return out

    claimed = set()
    for curve, tl in EXPECTED_TABLES.items():
        for name, et, n_ in candidates(curve):
            claimed.add(name)
    for name, r in facts.data.items():
        if r["kind"].startswith("Static") and "PRECOMP" in name and name not in claimed:
            run.add(Finding("T0", name, "consttab: precomputed table %s is not of a table type the oracle knows for its curve" % name,
                            config=cfg, site="%s:%s" % (r["file"], r["line"]), prop=prop))

    for curve, tl in EXPECTED_TABLES.items():
        m = M[curve]
        # base point constant
        base = dec.data("crrl::%s::Point::BASE" % curve)
        run.oblige(ok=False)
        if base is None:
            run.add(Finding("T0", "%s::BASE" % curve, "consttab: anchor crrl::%s::Point::BASE missing" % curve,
                            config=cfg, prop=prop))
            continue
        bp = base_affine(curve, m, base)
        if curve == "gls254":
            # generator of GLS254 is pinned through the table identification below (T[0] = BASE) and
            # its validity (on curve, in the right coset: not r-torsion, r*Bc = N)
            ok = m.W.on_curve(bp) and m.W.mul(m.r, bp) == (m.F.zero, m.F.zero)
            m.B = bp
        elif curve in ("jq255e", "jq255s"):
            ok = (all(m.F.eq(a, b) for a, b in zip(bp, m.B))
                  or all(m.F.eq(a, m.F.neg(b)) for a, b in zip(bp, m.B)))
        else:
            ok = all(m.F.eq(a, b) for a, b in zip(bp, m.B))
        if not ok:
            run.add(Finding("T2", "%s::BASE" % curve,
                            "consttab: crrl::%s::Point::BASE is not the specified generator" % curve,
                            config=cfg, site=_site(facts, "crrl::%s::Point::BASE" % curve), prop=prop))
        else:
            run.discharged += 1
        shifts = sorted(set(k for _t, k in tl))
        starts = {k: scalar_mul(curve, m, 1 << k, m.B) for k in shifts}
        served = {}
        for full, et, n_ in candidates(curve):
            T = dec.data(full)
            tshort = full.split("::")[-1]
            if T is None:
                run.oblige(ok=False)
                run.add(Finding("T0", full, "consttab: table %s is not const-evaluable" % full, config=cfg, prop=prop))
                continue
            layout = "FLAT" if "GF255<" in et else ("ODD_X" if (curve == "jq255e" and n_ == 8) else tshort)
            pts = table_points(curve, "X_ODD" if layout == "ODD_X" else ("PRECOMP_FLAT" if layout == "FLAT" else "T"), T)
            odd_only = layout == "ODD_X"
            k = None
            for kk in shifts:
                if pts and not compare_entry(curve, m, starts[kk], pts[0]):
                    k = kk
                    break
            if k is None:
                run.oblige(ok=False)
                bad(curve, tshort, 0, "*", "the first entry is not 2^k*G for any of the specified shifts k in %s" % shifts)
                continue
            if k in served and not odd_only:
                pass
            served.setdefault(k, []).append(tshort)
            tables_seen += 1
            P0 = starts[k]
            # successive multiples by repeated addition of P0 (independent of the code's windows)
            for i_, ent in enumerate(pts):
                n = (2 * i_ + 1) if odd_only else (i_ + 1)
                exp = scalar_mul(curve, m, n, P0)
                run.oblige(ok=False)
                entries += 1
                errs = compare_entry(curve, m, exp, ent)
                if errs:
                    for coord, why in errs:
                        bad(curve, tshort, i_, coord, why + " (expected %d*2^%d*G)" % (n, k))
                else:
                    run.discharged += 1
                    if i_ == 10:
                        run.sample("%s[%d] == %d*2^%d*G (config %s)" % (full, i_, n, k, cfg))
            explen = 8 if odd_only else 16
            if len(pts) != explen:
                bad(curve, tshort, "len", "len", "table has %d entries, expected %d" % (len(pts), explen))
        for k in shifts:
            run.oblige(ok=k in served)
            if k not in served:
                run.add(Finding("T0", "crrl::%s|shift%d" % (curve, k),
                                "consttab: no precomputed table of crrl::%s starts at 2^%d*G (anchor: the specified window layout needs one)" % (curve, k),
                                config=cfg, prop=prop))
    return entries, tables_seen


def _site(facts, name):
    r = facts.data.get(name)
    if r:
        return "%s:%s" % (r["file"], r["line"])
    return None


def base_affine(curve, m, base):
    F = m.F
    if curve in ("ed25519", "ed448"):
        zi = F.inv(base["Z"])
        return (F.mul(base["X"], zi), F.mul(base["Y"], zi))
    if curve in ("p256", "secp256k1"):
        zi = F.inv(base["Z"])
        return (F.mul(base["X"], zi), F.mul(base["Y"], zi))
    if curve in ("jq255e", "jq255s"):
        zi = F.inv(base["Z"])
        return (F.mul(base["E"], zi), F.mul(base["U"], zi))
    if curve == "gls254":
        # x = sqrt(b)*X/Z ; s = sqrt(b)*S/Z^2
        zi = F.inv(base["Z"])
        x = F.mul(m.sqrt_b, F.mul(base["X"], zi))
        s = F.mul(m.sqrt_b, F.mul(base["S"], F.mul(zi, zi)))
        return gls_from_xs(m, x, s)
    raise ValueError(curve)


def scalar_mul(curve, m, n, P):
    if curve in ("ed25519", "ed448"):
        return m.E.mul(n, P)
    if curve in ("p256", "secp256k1"):
        return m.W.mul(n, P)
    if curve in ("jq255e", "jq255s"):
        return m.gmul(n, P)
    if curve == "gls254":
        return gls_gmul(m, n, P)


def table_points(curve, tname, T):
    """Normalise the in-memory table into a list of per-point dicts."""
    if curve in ("jq255e",) and not tname.endswith("_ODD"):
        return [dict(e=T[3 * i], u=T[3 * i + 1], t=T[3 * i + 2]) for i in range(len(T) // 3)]
    if curve == "gls254":
        return [dict(scaled_x=T[2 * i], scaled_s=T[2 * i + 1]) for i in range(len(T) // 2)]
    return T


def compare_entry(curve, m, exp, got):
    F = m.F
    errs = []

    def chk(name, e, g):
        if g is None or not F.eq(e, g):
            errs.append((name, "value differs from definition"))

    if curve == "ed25519":
        x, y = exp
        chk("ypx", F.add(y, x), got.get("ypx"))
        chk("ymx", F.sub(y, x), got.get("ymx"))
        chk("t2d", F.mul(F.mul(2, m.d), F.mul(x, y)), got.get("t2d"))
    elif curve in ("ed448", "p256", "secp256k1"):
        chk("x", exp[0], got.get("x"))
        chk("y", exp[1], got.get("y"))
    elif curve in ("jq255e", "jq255s"):
        # (e,u) and (-e,-u) represent the same group element (the group is E/<N>; adding N
        # negates both coordinates), so a table entry is defined up to that simultaneous sign.
        e, u = exp
        ge, gu = got.get("e"), got.get("u")
        if ge is None or gu is None or not (
                (F.eq(e, ge) and F.eq(u, gu)) or (F.eq(F.neg(e), ge) and F.eq(F.neg(u), gu))):
            if ge is None or not (F.eq(e, ge) or F.eq(F.neg(e), ge)):
                errs.append(("e", "value differs from definition"))
            else:
                errs.append(("u", "value differs from definition"))
        chk("t", F.mul(u, u), got.get("t"))
    elif curve == "gls254":
        x, s = gls_to_xs(m, exp)
        isb = F.inv(m.sqrt_b)
        chk("scaled_x", F.mul(x, isb), got.get("scaled_x"))
        chk("scaled_s", F.mul(s, isb), got.get("scaled_s"))
    return errs


def check_uxcomp(facts, run, prop="C13"):
    """UX_COMP: 16385 words, z_i = ((u_i mod 2^48) << 16) | i sorted ascending with distinct
    top-48 bits, u_i = Montgomery u of i*2^240*B; plus B227 = 2^227*B."""
    dec = Decoder(facts)
    cfg = facts.config
    M = models()["ed25519"]
    F = M.F
    name = "crrl::ed25519::UX_COMP"
    T = dec.data(name)
    n_checked = 0
    if T is None:
        run.oblige(ok=False)
        run.add(Finding("T0", name, "consttab: anchor %s missing" % name, config=cfg, prop=prop))
        return 0
    site = _site(facts, name)
    if len(T) != 16385:
        run.oblige(ok=False)
        run.add(Finding("T1", "UX_COMP.len", "consttab: UX_COMP has %d entries, expected 16385" % len(T),
                        config=cfg, site=site, prop=prop))
    # expected values: projective accumulation to avoid 16384 inversions
    P = M.E.mul(1 << 240, M.B)
    # extended homogeneous addition (a=-1) in projective coords, batch-normalise y
    p = P25519
    d = M.d
    X1, Y1, Z1, T1 = 0, 1, 1, 0
    px, py = P
    pt = px * py % p
    ys = []
    for i in range(16385):
        ys.append((Y1, Z1))
        # add affine P (unified extended formulas, textbook add-2008-hwcd-3)
        A = (Y1 - X1) * (py - px) % p
        B = (Y1 + X1) * (py + px) % p
        C = T1 * 2 * d % p * pt % p
        D = Z1 * 2 % p
        E_, F_, G_, H_ = (B - A) % p, (D - C) % p, (D + C) % p, (B + A) % p
        X1, Y1, Z1, T1 = E_ * F_ % p, G_ * H_ % p, F_ * G_ % p, E_ * H_ % p
    exp = []
    for i, (Y, Z) in enumerate(ys):
        num = (Z + Y) % p
        den = (Z - Y) % p
        u = 0 if den == 0 else num * pow(den, -1, p) % p
        exp.append(((u & (2**48 - 1)) << 16) | i)
    # spot check of the projective accumulation against the plain affine oracle
    for i in (1, 2, 3, 1000, 16384):
        a = M.E.mul(i, P)
        u = F.div(F.add(1, a[1]), F.sub(1, a[1]))
        assert (((u & (2**48 - 1)) << 16) | i) == exp[i], "oracle self-check"
    exps = sorted(exp)
    for j in range(min(len(T), 16385)):
        run.oblige(ok=False)
        n_checked += 1
        if T[j] != exps[j]:
            run.add(Finding("T1", "UX_COMP[%d]" % j,
                            "consttab: UX_COMP[%d] = 0x%016X differs from the sorted definition value 0x%016X (i=%d)"
                            % (j, T[j], exps[j], exps[j] & 0xFFFF), config=cfg, site=site, prop=prop))
        else:
            run.discharged += 1
    # order and distinct prefixes (checked on the actual table independently of the values)
    run.oblige(ok=False)
    okord = all((T[j] >> 16) < (T[j + 1] >> 16) for j in range(len(T) - 1))
    if not okord:
        j = next(j for j in range(len(T) - 1) if not (T[j] >> 16) < (T[j + 1] >> 16))
        run.add(Finding("T3", "UX_COMP.order",
                        "consttab: UX_COMP not strictly ascending in its top 48 bits at index %d" % j,
                        config=cfg, site=site, prop=prop))
    else:
        run.discharged += 1
    run.sample("UX_COMP[9000] = 0x%016X == ((u_i mod 2^48)<<16)|i for i=%d" % (T[9000], T[9000] & 0xFFFF))
    # B227
    b227 = dec.data("crrl::ed25519::PublicKey::B227")
    run.oblige(ok=False)
    if b227 is None:
        run.add(Finding("T0", "B227", "consttab: anchor ed25519::PublicKey::B227 missing", config=cfg, prop=prop))
    else:
        zi = F.inv(b227["Z"])
        a = (F.mul(b227["X"], zi), F.mul(b227["Y"], zi))
        e = M.E.mul(1 << 227, M.B)
        okb = F.eq(a[0], e[0]) and F.eq(a[1], e[1]) and F.eq(F.mul(b227["T"], b227["Z"]), F.mul(b227["X"], b227["Y"]))
        if not okb:
            run.add(Finding("T1", "B227", "consttab: ed25519::PublicKey::B227 is not 2^227*B",
                            config=cfg, site=_site(facts, "crrl::ed25519::PublicKey::B227"), prop=prop))
        else:
            run.discharged += 1
    return n_checked


def check_curve_constants(facts, run, prop="C04"):
    """One-line identities of curve / endomorphism constants that scalar multiplication relies on."""
    dec = Decoder(facts)
    cfg = facts.config
    M = models()
    n = 0

    def req(name, pred, what):
        nonlocal n
        v = dec.data(name)
        run.oblige(ok=False)
        n += 1
        if v is None:
            run.add(Finding("T0", name, "consttab: anchor constant %s missing" % name, config=cfg, prop=prop))
            return
        try:
            ok = pred(v)
        except Exception as ex:  # decoding shape changed
            ok = False
            what += " (%s)" % ex
        if not ok:
            run.add(Finding("T4", name, "consttab: %s violates its defining identity: %s" % (name, what),
                            config=cfg, site=_site(facts, name), prop=prop))
        else:
            run.discharged += 1

    F = M["ed25519"].F
    d = M["ed25519"].d
    req("crrl::ed25519::Point::D", lambda v: F.eq(v, d), "D = -121665/121666")
    req("crrl::ed25519::Point::D2", lambda v: F.eq(v, 2 * d), "D2 = 2*D")
    req("crrl::ed25519::Point::SQRT_M1", lambda v: F.eq(v * v, -1), "SQRT_M1^2 = -1")
    for c in ("ed25519", "ed448"):
        m = M[c]
        def neutral_ok(v, m=m):
            return (m.F.iszero(v["X"]) and m.F.eq(v["Y"], v["Z"]) and not m.F.iszero(v["Z"])
                    and ("T" not in v or m.F.iszero(v["T"])))
        req("crrl::%s::Point::NEUTRAL" % c, neutral_ok, "neutral = (0 : 1 : 1 [: 0])")
    for c in ("p256", "secp256k1"):
        m = M[c]
        req("crrl::%s::Point::NEUTRAL" % c, lambda v, m=m: m.F.iszero(v["Z"]) and not m.F.iszero(v["Y"]),
            "neutral has Z = 0, Y != 0")
    Fp_ = M["p256"].F
    b = M["p256"].b
    req("crrl::p256::Point::B", lambda v: Fp_.eq(v, b), "curve constant b")
    req("crrl::p256::Point::B2", lambda v: Fp_.eq(v, 2 * b), "2b")
    req("crrl::p256::Point::B4", lambda v: Fp_.eq(v, 4 * b), "4b")
    req("crrl::p256::Point::B8", lambda v: Fp_.eq(v, 8 * b), "8b")
    req("crrl::p256::Point::THREE", lambda v: Fp_.eq(v, 3), "3")
    Fs = M["secp256k1"].F
    req("crrl::secp256k1::Point::B", lambda v: Fs.eq(v, 7), "curve constant b = 7")
    req("crrl::secp256k1::Point::EPSILON", lambda v: Fs.eq(pow(v, 3, PSECP), 1) and not Fs.eq(v, 1),
        "EPSILON is a primitive cube root of unity")
    Fe = M["jq255e"].F
    req("crrl::jq255e::Point::ETA", lambda v: Fe.eq(v * v, -1), "ETA^2 = -1")
    for c in ("jq255e", "jq255s"):
        m = M[c]
        req("crrl::%s::Point::NEUTRAL" % c,
            lambda v, m=m: m.F.eq(v["E"], m.F.neg(v["Z"])) and m.F.iszero(v["U"]) and m.F.iszero(v["T"]) and not m.F.iszero(v["Z"]),
            "neutral = (e,u) = (-1, 0)")
        req("crrl::%s::Point::BASE" % c,
            lambda v, m=m: m.onq(m.F.div(v["E"], v["Z"]), m.F.div(v["U"], v["Z"])) and m.F.eq(m.F.mul(v["U"], v["U"]), m.F.mul(v["T"], v["Z"])),
            "BASE on the quartic and U^2 = T*Z")
    g = M["gls254"]
    req("crrl::gls254::Point::A", lambda v: v == g.a, "A = u")
    req("crrl::gls254::Point::SB", lambda v: g.F.mul(v, v) == g.b, "SB^2 = b")
    # endomorphism eigenvalue for gls254: MU^2 + MU + 1 = 0 or MU^2 = -1 (documented: sqrt(-1))
    r = g.r
    for name, rec in facts.data.items():
        if name.startswith("crrl::gls254::") and name.endswith("::MU") and "bytes" in rec:
            req(name, lambda v: (v * v + 1) % r == 0, "MU^2 = -1 mod r")
        if name.startswith("crrl::gls254::") and name.endswith("::MU_PLUS_ONE") and "bytes" in rec:
            mu = [dec.data(k) for k in facts.data if k.startswith("crrl::gls254::") and k.endswith("::MU")]
            req(name, lambda v: mu and (v - mu[0] - 1) % r == 0, "MU_PLUS_ONE = MU + 1")
    n256 = M["p256"].n
    req("crrl::p256::Point::verify_helper_vartime::INV_T128", lambda v: v * 2**128 % n256 == 1, "INV_T128 * 2^128 = 1 mod n")
    req("crrl::p256::Point::verify_helper_vartime::T128", lambda v: v == 2**128 % n256, "T128 = 2^128 mod n")
    return n
