"""Independent reference arithmetic (Python big integers) used only as the
oracle for const-evaluated tables.  Formulas are the textbook affine ones for
the curve *equations* stated in each crrl module header; nothing is taken from
the Rust code."""


class Fp:
    def __init__(self, p):
        self.p = p
        self.zero = 0
        self.one = 1

    def add(self, a, b): return (a + b) % self.p
    def sub(self, a, b): return (a - b) % self.p
    def neg(self, a): return (-a) % self.p
    def mul(self, a, b): return (a * b) % self.p
    def inv(self, a): return pow(a, self.p - 2, self.p)
    def div(self, a, b): return (a * self.inv(b)) % self.p
    def eq(self, a, b): return (a - b) % self.p == 0
    def iszero(self, a): return a % self.p == 0
    def const(self, n): return n % self.p
    def two(self): return 2 % self.p
    def three(self): return 3 % self.p

    def sqrt(self, a):
        p = self.p
        a %= p
        if a == 0:
            return 0
        if pow(a, (p - 1) // 2, p) != 1:
            return None
        if p % 4 == 3:
            return pow(a, (p + 1) // 4, p)
        if p % 8 == 5:
            r = pow(a, (p + 3) // 8, p)
            if (r * r - a) % p != 0:
                r = r * pow(2, (p - 1) // 4, p) % p
            return r
        # Tonelli-Shanks
        q, s = p - 1, 0
        while q % 2 == 0:
            q //= 2
            s += 1
        z = 2
        while pow(z, (p - 1) // 2, p) != p - 1:
            z += 1
        m, c, t, r = s, pow(z, q, p), pow(a, q, p), pow(a, (q + 1) // 2, p)
        while t != 1:
            i, t2 = 0, t
            while t2 != 1:
                t2 = t2 * t2 % p
                i += 1
            b = pow(c, 1 << (m - i - 1), p)
            m, c, t, r = i, b * b % p, t * b * b % p, r * b % p
        return r


# ---- GF(2^127) = GF(2)[z]/(z^127 + z^63 + 1) ------------------------------

M127 = (1 << 127) | (1 << 63) | 1


def clmul(a, b):
    r = 0
    while b:
        if b & 1:
            r ^= a
        a <<= 1
        b >>= 1
    return r


def red127(x):
    # reduce polynomial of degree < 254 modulo z^127 + z^63 + 1
    for _ in range(3):
        hi = x >> 127
        if hi == 0:
            break
        x = (x & ((1 << 127) - 1)) ^ hi ^ (hi << 63)
    return x


class F2_127:
    zero = 0
    one = 1

    def add(self, a, b): return a ^ b
    sub = add
    def neg(self, a): return a
    def mul(self, a, b): return red127(clmul(a, b))
    def eq(self, a, b): return a == b
    def iszero(self, a): return a == 0

    def inv(self, a):
        # a^(2^127 - 2)
        r = 1
        x = a
        e = (1 << 127) - 2
        while e:
            if e & 1:
                r = self.mul(r, x)
            x = self.mul(x, x)
            e >>= 1
        return r

    def div(self, a, b): return self.mul(a, self.inv(b))


class F2_254:
    """GF(2^127)[u]/(u^2+u+1); elements are pairs (x0, x1)."""
    def __init__(self):
        self.b = F2_127()
        self.zero = (0, 0)
        self.one = (1, 0)

    def add(self, a, b): return (a[0] ^ b[0], a[1] ^ b[1])
    sub = add
    def neg(self, a): return a

    def mul(self, a, b):
        B = self.b
        a0b0 = B.mul(a[0], b[0])
        a1b1 = B.mul(a[1], b[1])
        cross = B.mul(a[0] ^ a[1], b[0] ^ b[1])  # a0b0+a0b1+a1b0+a1b1
        return (a0b0 ^ a1b1, cross ^ a0b0)

    def inv(self, a):
        B = self.b
        n = B.mul(a[0], a[0]) ^ B.mul(a[0], a[1]) ^ B.mul(a[1], a[1])
        ni = B.inv(n)
        return (B.mul(a[0] ^ a[1], ni), B.mul(a[1], ni))

    def div(self, a, b): return self.mul(a, self.inv(b))
    def eq(self, a, b): return a == b
    def iszero(self, a): return a == (0, 0)
    def const(self, n): return (n & 1, 0)
    def two(self): return (0, 0)
    def three(self): return (1, 0)


class Weierstrass:
    """y^2 + a1*x*y + a3*y = x^3 + a2*x^2 + a4*x + a6 over field F (affine,
    None = point at infinity)."""

    def __init__(self, F, a1, a2, a3, a4, a6):
        self.F, self.a1, self.a2, self.a3, self.a4, self.a6 = F, a1, a2, a3, a4, a6

    def on_curve(self, P):
        if P is None:
            return True
        F = self.F
        x, y = P
        lhs = F.add(F.add(F.mul(y, y), F.mul(self.a1, F.mul(x, y))), F.mul(self.a3, y))
        x2 = F.mul(x, x)
        rhs = F.add(F.add(F.add(F.mul(x2, x), F.mul(self.a2, x2)), F.mul(self.a4, x)), self.a6)
        return F.eq(lhs, rhs)

    def neg(self, P):
        if P is None:
            return None
        F = self.F
        x, y = P
        return (x, F.sub(F.sub(F.neg(y), F.mul(self.a1, x)), self.a3))

    def add(self, P, Q):
        F = self.F
        if P is None:
            return Q
        if Q is None:
            return P
        x1, y1 = P
        x2, y2 = Q
        if F.eq(x1, x2):
            nq = self.neg(Q)
            if F.eq(y1, nq[1]):
                return None
            # doubling
            num = F.sub(F.add(F.add(F.mul(F.three(), F.mul(x1, x1)),
                                    F.mul(F.mul(F.two(), self.a2), x1)), self.a4),
                        F.mul(self.a1, y1))
            den = F.add(F.add(F.mul(F.two(), y1), F.mul(self.a1, x1)), self.a3)
            lam = F.div(num, den)
        else:
            lam = F.div(F.sub(y2, y1), F.sub(x2, x1))
        x3 = F.sub(F.sub(F.sub(F.add(F.mul(lam, lam), F.mul(self.a1, lam)), self.a2), x1), x2)
        nu = F.sub(y1, F.mul(lam, x1))
        y3 = F.sub(F.sub(F.neg(F.mul(F.add(lam, self.a1), x3)), nu), self.a3)
        return (x3, y3)

    def mul(self, n, P):
        R = None
        Q = P
        while n:
            if n & 1:
                R = self.add(R, Q)
            Q = self.add(Q, Q)
            n >>= 1
        return R


class Edwards:
    """a*x^2 + y^2 = 1 + d*x^2*y^2 over prime field F (affine)."""

    def __init__(self, F, a, d):
        self.F, self.a, self.d = F, a % F.p, d % F.p

    def on_curve(self, P):
        F = self.F
        x, y = P
        x2, y2 = F.mul(x, x), F.mul(y, y)
        return F.eq(F.add(F.mul(self.a, x2), y2), F.add(1, F.mul(self.d, F.mul(x2, y2))))

    def add(self, P, Q):
        F = self.F
        x1, y1 = P
        x2, y2 = Q
        t = F.mul(self.d, F.mul(F.mul(x1, x2), F.mul(y1, y2)))
        x3 = F.div(F.add(F.mul(x1, y2), F.mul(y1, x2)), F.add(1, t))
        y3 = F.div(F.sub(F.mul(y1, y2), F.mul(self.a, F.mul(x1, x2))), F.sub(1, t))
        return (x3, y3)

    def mul(self, n, P):
        R = (0, 1)
        Q = P
        while n:
            if n & 1:
                R = self.add(R, Q)
            Q = self.add(Q, Q)
            n >>= 1
        return R
