"""Fact extraction (mirfacts driver under cargo +nightly check) and loading.

Facts are always rebuilt from /repo's current working tree: the cache key is a
content hash of every file under /repo/src plus Cargo.toml / Cargo.lock, the
driver binary and the configuration, so an edited tree never hits a stale
entry.  Build output goes to a scratch directory that is removed afterwards.
"""
import fcntl
import hashlib
import json
import os
import shutil
import subprocess
import sys
import tempfile
import time

VERIF = os.path.dirname(os.path.dirname(os.path.abspath(__file__)))
REPO = os.environ.get("CRRL_REPO", "/repo")
CACHE = os.path.join(VERIF, ".cache")
DRIVER = os.path.join(VERIF, "mirfacts", "target", "release", "mirfacts")
WITNESS = os.path.join(VERIF, "witness")

BASE_RUSTFLAGS = "-Zmir-opt-level=0 -Awarnings -Coverflow-checks=off -Cdebug-assertions=off"

# name -> dict(features, no_default, target, rustflags, build_std, crate_dir)
CONFIGS = {
    "x64": dict(),
    "x64-tf": dict(rustflags="-C target-feature=+avx2,+lzcnt,+sse4.1,+pclmulqdq"),
    "x64-w32": dict(features="w32_backend"),
    "x64-m51": dict(features="gf255_m51"),
    "x64-clmul": dict(features="gfb254_x86clmul", rustflags="-C target-feature=+pclmulqdq"),
    "x64-zz32": dict(features="zz32"),
    "x64-nostd": dict(no_default=True, features="alloc,omnes"),
    "a64": dict(target="aarch64-unknown-linux-gnu", build_std=True, no_default=True,
                features="alloc,omnes", rustflags="-C target-feature=+aes"),
    "rv64": dict(target="riscv64gc-unknown-linux-gnu", build_std=True, no_default=True,
                 features="alloc,omnes"),
    "x86": dict(target="i686-unknown-linux-gnu", build_std=True, no_default=True,
                features="alloc,omnes"),
    "x64-bench": dict(features="gls254bench"),
    "x64-dev": dict(dev_profile=True),
    "witness": dict(witness=True),
}

QUICK_CONFIGS = ["x64", "x64-w32", "x64-m51", "x64-tf"]
THOROUGH_CONFIGS = ["x64", "x64-tf", "x64-w32", "x64-m51", "x64-clmul", "x64-zz32",
                    "x64-nostd", "x64-bench", "a64", "rv64", "x86"]


def _sysroot():
    return subprocess.check_output(["rustc", "+nightly", "--print", "sysroot"], text=True).strip()


def tree_hash():
    h = hashlib.sha256()
    paths = []
    for root, dirs, files in os.walk(os.path.join(REPO, "src")):
        dirs.sort()
        for f in sorted(files):
            paths.append(os.path.join(root, f))
    for f in ("Cargo.toml", "Cargo.lock"):
        p = os.path.join(REPO, f)
        if os.path.exists(p):
            paths.append(p)
    paths.append(DRIVER)
    if os.path.isdir(WITNESS):
        for root, dirs, files in os.walk(WITNESS):
            dirs[:] = sorted(d for d in dirs if d != "target")
            for f in sorted(files):
                paths.append(os.path.join(root, f))
    for p in paths:
        h.update(p.encode())
        h.update(b"\0")
        try:
            with open(p, "rb") as fh:
                h.update(fh.read())
        except OSError:
            h.update(b"<missing>")
    return h.hexdigest()[:24]


def ensure_driver():
    if os.path.exists(DRIVER):
        return
    subprocess.check_call(["cargo", "build", "--release", "--offline"],
                          cwd=os.path.join(VERIF, "mirfacts"))


def extract(config, th=None, quiet=True):
    """Returns path of the fact file for `config`, extracting if necessary."""
    ensure_driver()
    cfg = CONFIGS[config]
    th = th or tree_hash()
    os.makedirs(CACHE, exist_ok=True)
    out = os.path.join(CACHE, "facts-%s-%s.jsonl" % (config, th))
    lock = open(out + ".lock", "w")
    fcntl.flock(lock, fcntl.LOCK_EX)
    try:
        if os.path.exists(out) and os.path.getsize(out) > 0:
            try:
                os.utime(out)
            except OSError:
                pass
            return out
        # prune cache entries of other trees for this config, but only ones not used for an hour: several checks may run
        # concurrently on different trees (probe runners), and one must not delete the file another is about to load
        now = time.time()
        for f in os.listdir(CACHE):
            if f.startswith("facts-%s-" % config) and f.endswith(".jsonl") and th not in f:
                try:
                    if now - os.path.getmtime(os.path.join(CACHE, f)) < 3600:
                        continue
                    os.remove(os.path.join(CACHE, f))
                    os.remove(os.path.join(CACHE, f + ".lock"))
                except OSError:
                    pass
        scratch = tempfile.mkdtemp(prefix="build-%s-" % config, dir=CACHE)
        try:
            env = dict(os.environ)
            env["LD_LIBRARY_PATH"] = _sysroot() + "/lib"
            rf = BASE_RUSTFLAGS
            if cfg.get("dev_profile"):
                rf = "-Zmir-opt-level=0 -Awarnings"
            if cfg.get("rustflags"):
                rf += " " + cfg["rustflags"]
            env["RUSTFLAGS"] = rf
            env["RUSTC_WRAPPER"] = DRIVER
            env["MIRFACTS_OUT"] = scratch
            env["CARGO_TARGET_DIR"] = os.path.join(scratch, "target")
            env["CARGO_NET_OFFLINE"] = "true"
            env.pop("RUSTC_WORKSPACE_WRAPPER", None)
            cmd = ["cargo", "+nightly", "check", "--offline", "--lib"]
            cwd = REPO
            crate = "crrl"
            if cfg.get("witness"):
                cwd = WITNESS
                env["MIRFACTS_CRATES"] = "crrl_witness"
                crate = "crrl_witness"
                lockf = os.path.join(REPO, "Cargo.lock")
                if os.path.exists(lockf):
                    shutil.copy(lockf, os.path.join(scratch, "Cargo.lock.repo"))
            if cfg.get("no_default"):
                cmd.append("--no-default-features")
            if cfg.get("features"):
                cmd += ["--features", cfg["features"]]
            if cfg.get("target"):
                cmd += ["--target", cfg["target"]]
            if cfg.get("build_std"):
                cmd += ["-Zbuild-std=core,alloc"]
            t0 = time.time()
            p = subprocess.run(cmd, cwd=cwd, env=env, stdout=subprocess.PIPE,
                               stderr=subprocess.STDOUT, text=True)
            produced = os.path.join(scratch, crate + ".jsonl")
            if p.returncode != 0 or not os.path.exists(produced) or os.path.getsize(produced) == 0:
                sys.stderr.write(p.stdout[-4000:])
                raise RuntimeError("fact extraction failed for config %s (rc=%s)" % (config, p.returncode))
            os.replace(produced, out)
            if not quiet:
                sys.stderr.write("[facts] %s extracted in %.1fs\n" % (config, time.time() - t0))
            return out
        finally:
            shutil.rmtree(scratch, ignore_errors=True)
    finally:
        fcntl.flock(lock, fcntl.LOCK_UN)
        lock.close()


class Facts:
    """In-memory view of one configuration's fact file."""

    def __init__(self, path, config):
        self.config = config
        self.fns = {}      # id -> fn record
        self.by_name = {}  # pretty name -> [fn records]
        self.data = {}     # pretty name -> data record
        self.adts = {}     # pretty name -> adt record
        self.types = []
        self.crate = None
        with open(path) as fh:
            for line in fh:
                r = json.loads(line)
                k = r["k"]
                if k == "fn":
                    self.fns[r["id"]] = r
                    self.by_name.setdefault(r["name"], []).append(r)
                elif k == "data":
                    self.data[r["name"]] = r
                elif k == "adt":
                    self.adts[r["name"]] = r
                elif k == "types":
                    self.types = r["types"]
                elif k == "crate":
                    self.crate = r
        self.ptr_bits = self.crate["ptr_bits"]

    def ty(self, tid):
        return self.types[tid]

    def fn_named(self, name):
        """Unique function with this pretty name, else None."""
        l = self.by_name.get(name, [])
        return l[0] if len(l) == 1 else None

    def fns_matching(self, pred):
        return [f for f in self.fns.values() if pred(f)]


_loaded = {}


def load(config, th=None):
    th = th or tree_hash()
    key = (config, th)
    if key not in _loaded:
        for attempt in range(3):
            try:
                _loaded[key] = Facts(extract(config, th), config)
                break
            except FileNotFoundError:
                if attempt == 2:
                    raise
    return _loaded[key]


def extract_many(configs, th=None, jobs=4):
    """Extract several configurations in parallel (processes)."""
    th = th or tree_hash()
    import concurrent.futures as cf
    with cf.ThreadPoolExecutor(max_workers=jobs) as ex:
        futs = {c: ex.submit(extract, c, th) for c in configs}
        return {c: f.result() for c, f in futs.items()}
