"""E9 limbcov (K5): whole-value operations must touch every limb.

A multi-limb value ([T; N] field of a backend type, N >= 2) is one number.  A function that reads (or writes) limbs
through statically known indices -- constants and `for i in a..b` loop variables with constant bounds -- and reaches
all limbs but k of them (k small) treats the value as something else than the number it is: an `iszero` that skips
the top limb calls 2^192 zero, a canonicality borrow chain that skips a limb accepts or rejects the wrong range, a
`set_cond` that skips a limb produces a mixture.  This is the "contradiction" shape of Engler et al.: the function
itself says (by touching N-k limbs) that the limbs matter.

Rule K5: for every function and every fixed-size array reached from a parameter (through fields and references),
collect the set R of indices read and W of indices written, when *all* accesses to that array in the function have
statically known index ranges and the array does not escape (no whole-array use, no reference passed on).  If
0 < N - |S| <= slack(N) for S in {R, W} the function must be listed in tables/limbcov.json (reviewed, with the
reason), else it is reported.  slack(N) = N / 2 (an operation touching at least half of the limbs).  The instances where S is the full index set are
counted (floor) so the rule cannot pass vacuously.

What this decides: the structural necessary condition "no limb is silently ignored"; not that the arithmetic on the
limbs is right."""
import json
import os
import re

from .mir import Body, const_int, operand_local
from .absint import FnEval
from .report import Finding
from .ctflow import norm_name

VERIF = os.path.dirname(os.path.dirname(os.path.abspath(__file__)))


def load_table():
    p = os.path.join(VERIF, "tables", "limbcov.json")
    if not os.path.exists(p):
        return {"partial_ok": []}
    return json.load(open(p))


class _Allowed:
    """reviewed exceptions keyed by (function name or pattern, array, kind)"""

    def __init__(self, tab):
        self.ents = [(re.compile(e["fn"]) if any(c in e["fn"] for c in "\\(|[*+?") else None, e) for e in tab.get("partial_ok", [])]

    def get(self, key):
        fn, arr, kind = key
        for rx, e in self.ents:
            if e["array"] == arr and e["kind"] == kind and (e["fn"] == fn or (rx is not None and rx.fullmatch(fn))):
                return e
        return None

    def __contains__(self, key):
        return self.get(key) is not None


def slack(n):
    """how many limbs may be missing for the operation to still count as 'whole-value': up to half of them."""
    return n // 2


class FnCov:
    def __init__(self, facts, fn):
        self.f = facts
        self.fn = fn
        self.b = Body(fn)
        self.ev = FnEval(facts, self.b)
        self.alias = {}      # local -> (root param, path tuple) for refs to (sub)places of params
        self.arr = {}        # key -> dict(n, R, W, opaque, line)
        # locals that are copies of one named constant (`Self::MODULUS`) denote the same array
        self.kroot = {}
        for l in range(fn["argc"] + 1, len(fn["locals"])):
            d = self.b.single_def(l)
            if d and d[2] == "A" and d[3][2][0] == "use" and d[3][2][1][0] == "kc":
                c = d[3][2][1][2]
                if c.get("item") and "promoted" not in c:
                    self.kroot[l] = "K:" + c["item"]
        self._aliases()

    # ---- types -------------------------------------------------------------
    def ty_of_path(self, tid, proj):
        """type id after applying projections (only '*' and field)."""
        for e in proj:
            td = self.f.ty(tid)
            if e == "*":
                if td.get("k") in ("ref", "ptr"):
                    tid = td["to"]
                else:
                    return None
            elif e[0] == "f":
                if td.get("k") == "adt" and not td.get("enum") and td.get("variants"):
                    fl = td["variants"][0][2]
                    if e[1] >= len(fl):
                        return None
                    tid = fl[e[1]][1]
                elif td.get("k") == "tuple":
                    el = td.get("elems") or td.get("tys") or []
                    if e[1] >= len(el):
                        return None
                    tid = el[e[1]]
                else:
                    return None
            else:
                return None
        return tid

    def arr_len(self, tid):
        if tid is None:
            return None
        td = self.f.ty(tid)
        if td.get("k") == "array":
            if isinstance(td.get("len"), int):
                return td["len"]
            et = self.f.ty(td["elem"])
            if td.get("size") and et.get("size"):
                return td["size"] // et["size"]
        return None

    # ---- aliases -----------------------------------------------------------
    def _aliases(self):
        fn = self.fn
        for l in range(1, fn["argc"] + 1):
            self.alias[l] = (l, ())
        changed = True
        rounds = 0
        while changed and rounds < 6:
            changed = False
            rounds += 1
            for l in range(fn["argc"] + 1, len(fn["locals"])):
                if l in self.alias:
                    continue
                d = self.b.single_def(l)
                if not d or d[2] != "A":
                    continue
                rv = d[3][2]
                src = None
                if rv[0] in ("ref", "rawptr"):
                    src = rv[2]
                elif rv[0] == "use" and rv[1][0] in ("cp", "mv"):
                    td = self.f.ty(self.b.local_ty(l))
                    if td.get("k") in ("ref", "ptr"):
                        src = rv[1][1]
                if src is None:
                    continue
                base = self.resolve(src, prefix_only=True)
                if base is not None:
                    self.alias[l] = base
                    changed = True

    def resolve(self, pl, prefix_only=False):
        """place -> (root param, path) if it consists of a param / alias root followed by '*' / field projections only."""
        root = pl[0]
        if root not in self.alias:
            return None
        r, path = self.alias[root]
        out = list(path)
        for e in pl[1:]:
            if e == "*" or e[0] == "f":
                out.append(e if e == "*" else ("f", e[1]))
            else:
                return None
        # normalise: a ref-typed alias followed by '*' -- keep '*' markers, they are needed for typing
        return (r, tuple(out))

    def key_ty(self, key):
        r, path = key
        # aliases were built from `&place`: the alias local is a reference to `place`; its own deref appears as '*' in
        # the using place.  Path typing: start from the param type, apply the projections; a leading alias step adds a
        # reference level that the '*' of the user removes -- model by skipping '*' that do not type-check.
        tid = self.b.local_ty(r)
        for e in path:
            td = self.f.ty(tid)
            if e == "*":
                if td.get("k") in ("ref", "ptr"):
                    tid = td["to"]
                # else: deref of an alias created by `&`: no-op
            else:
                while self.f.ty(tid).get("k") in ("ref", "ptr"):
                    tid = self.f.ty(tid)["to"]
                t2 = self.ty_of_path(tid, [e])
                if t2 is None:
                    return None
                tid = t2
        while self.f.ty(tid).get("k") in ("ref", "ptr"):
            tid = self.f.ty(tid)["to"]
        return tid

    def canon(self, key):
        r, path = key
        return (self.kroot.get(r, r), tuple(e for e in path if e != "*"))

    # ---- accesses ----------------------------------------------------------
    def split_index(self, pl):
        """(prefix place, index projection, rest) at the first index projection, or None."""
        for i, e in enumerate(pl[1:], 1):
            if e != "*" and e[0] in ("i", "c", "s"):
                return pl[:i], e, pl[i + 1:]
        return None

    def note(self, pl, write, bi, line):
        sp = self.split_index(pl)
        if sp is None:
            # whole place: if it is (or contains / is contained in) a tracked array -> opaque
            base = self.resolve(pl)
            if base is not None:
                self.touch_whole(base)
            return
        pre, ie, _rest = sp
        base = self.resolve(pre)
        if base is None:
            return
        tid = self.key_ty(base)
        n = self.arr_len(tid)
        if n is None:
            return
        k = self.canon(base)
        a = self.arr.setdefault(k, dict(n=n, R=set(), W=set(), opaque=False, line=line))
        if ie[0] == "c":
            idx = (n - ie[1]) if ie[3] else ie[1]
            rng = (idx, idx)
        elif ie[0] == "s":
            a["opaque"] = True
            return
        else:
            self.ev.at_block(bi)
            rng = self.ev.ival(ie[1], bi)
            if rng is None or rng[0] < 0 or rng[1] >= n:
                a["opaque"] = True
                return
        (a["W"] if write else a["R"]).update(range(rng[0], rng[1] + 1))

    def touch_whole(self, base):
        k = self.canon(base)
        # any tracked array whose path extends k or is a prefix of k becomes opaque
        self.whole.append(k)

    def operand_places(self, op):
        if op[0] in ("cp", "mv"):
            return [op[1]]
        return []

    def run(self):
        self.whole = []
        b = self.b
        # locals that are aliases may be *used* as plain operands (escape): treat as whole-use of their target
        for bi in b.reach:
            blk = b.blocks[bi]
            for s in blk["s"]:
                if s[0] != "A":
                    continue
                dest, rv, line = s[1], s[2], s[3]
                self.note(dest, True, bi, line) if self.split_index(dest) else self._dest_whole(dest)
                k = rv[0]
                if k in ("ref", "rawptr"):
                    pl = rv[2]
                    if self.split_index(pl):
                        self.note(pl, bool(rv[1]), bi, line)
                        self.note(pl, False, bi, line)
                    else:
                        # alias creation is handled in _aliases when the destination is a tracked alias local;
                        # otherwise the reference escapes our tracking
                        if not (len(dest) == 1 and dest[0] in self.alias and dest[0] > self.fn["argc"]):
                            base = self.resolve(pl)
                            if base is not None:
                                self.touch_whole(base)
                elif k == "use":
                    for pl in self.operand_places(rv[1]):
                        self._use(pl, dest, bi, line)
                elif k == "bin":
                    for o in (rv[2], rv[3]):
                        for pl in self.operand_places(o):
                            self._use(pl, None, bi, line)
                elif k in ("un", "cast"):
                    o = rv[2]
                    for pl in self.operand_places(o):
                        self._use(pl, None, bi, line)
                elif k == "agg":
                    for o in rv[2]:
                        for pl in self.operand_places(o):
                            self._use(pl, None, bi, line)
                elif k == "repeat":
                    for pl in self.operand_places(rv[1]):
                        self._use(pl, None, bi, line)
                elif k == "discr":
                    pass
                elif k == "len":
                    pass
            t = blk["t"]
            if t[0] == "call":
                for o in t[2]:
                    for pl in self.operand_places(o):
                        self._use(pl, None, bi, t[5], call=True)
                d = t[3]
                if d:
                    self.note(d, True, bi, t[5]) if self.split_index(d) else self._dest_whole(d)
            elif t[0] == "switch":
                for pl in self.operand_places(t[1]):
                    self._use(pl, None, bi, t[4])
        # apply whole-uses
        for k, a in self.arr.items():
            for w in self.whole:
                if w[0] == k[0] and (k[1][:len(w[1])] == w[1] or w[1][:len(k[1])] == k[1]):
                    a["opaque"] = True
        return self.arr

    def _dest_whole(self, dest):
        if len(dest) == 1:
            return
        base = self.resolve(dest)
        if base is not None:
            self.touch_whole(base)

    def _use(self, pl, dest, bi, line, call=False):
        if self.split_index(pl):
            self.note(pl, False, bi, line)
            return
        if len(pl) == 1 and pl[0] in self.alias:
            # plain use of an alias / param local: copying a reference into another alias local is tracked, anything
            # else (call argument, store) lets the array escape
            if dest is not None and len(dest) == 1 and dest[0] in self.alias and dest[0] > self.fn["argc"] and not call:
                return
            self.touch_whole(self.alias[pl[0]])
            return
        base = self.resolve(pl)
        if base is not None:
            self.touch_whole(base)


CURVES = ("crrl::ed25519::", "crrl::ed448::", "crrl::ristretto255::", "crrl::decaf448::", "crrl::p256::",
          "crrl::secp256k1::", "crrl::jq255e::", "crrl::jq255s::", "crrl::gls254::")
SCOPES = {
    # property -> module prefixes / name pattern whose functions (and everything they call) rely on whole-value limb operations
    "C05": None, "C18": None, "C20": None,
    "C04": CURVES, "C06": CURVES,
    "C07": ("crrl::ed25519::", "crrl::ed448::"),
    "C08": ("crrl::p256::", "crrl::secp256k1::"),
    "C09": ("crrl::jq255e::", "crrl::jq255s::", "crrl::gls254::"),
    "C10": re.compile(r".*vartime.*"),
    "C11": re.compile(r".*::(split_vartime|split_mu|split_theta|mul_divr_rounded|lagrange\w*)"),
    "C13": re.compile(r".*::(verify_trunc\w*|prepare_truncate|x_sequence_vartime)"),
    "C15": ("crrl::frost::",),
}


def scope_filter(facts, prop):
    """predicate: is the function inside the call trees of the property's anchor functions?"""
    pre = SCOPES.get(prop)
    if pre is None:
        return None
    seen = set()
    work = []
    for fn in facts.fns.values():
        nm = norm_name(fn["name"])
        if (nm.startswith(pre) if isinstance(pre, tuple) else bool(pre.fullmatch(nm))):
            seen.add(fn["id"])
            work.append(fn)
    while work:
        fn = work.pop()
        for b in fn["blocks"]:
            t = b["t"]
            if t[0] == "call" and t[1].get("l") and t[1].get("id") in facts.fns and t[1]["id"] not in seen:
                seen.add(t[1]["id"])
                work.append(facts.fns[t[1]["id"]])
    return lambda fn: fn["id"] in seen


def fn_key(fn):
    return norm_name(fn["name"])


def pathstr(fn, key):
    r, path = key
    if isinstance(r, str):
        nm = r.split("::")[-1]
    else:
        nm = fn["locals"][r][1] or "_%d" % r
    return nm + "".join(".%d" % e[1] for e in path)


def run_limbcov(facts, run, prop, type_filter=None):
    """type_filter: optional predicate on the function record restricting the scope (per-property views)."""
    tab = load_table()
    allowed = _Allowed(tab)
    cfg = facts.config
    n_full = n_partial_ok = n_fns = 0
    used = set()
    for fn in facts.fns.values():
        if fn["kind"] == "Closure" or not fn["file"].startswith("src/"):
            continue
        if type_filter and not type_filter(fn):
            continue
        try:
            arrs = FnCov(facts, fn).run()
        except RecursionError:
            continue
        if arrs:
            n_fns += 1
        for key, a in sorted(arrs.items(), key=str):
            n = a["n"]
            if a["opaque"] or n < 2:
                continue
            for kind, S in (("read", a["R"]), ("write", a["W"])):
                if not S:
                    continue
                miss = sorted(set(range(n)) - S)
                if not miss:
                    n_full += 1
                    run.oblige()
                    if n_full % 211 == 0:
                        run.sample("K5 %s: %s of %s[0..%d] covers every limb (config %s)" % (fn["name"], kind, pathstr(fn, key), n, cfg))
                    continue
                if len(miss) > slack(n):
                    continue
                ak = (fn_key(fn), pathstr(fn, key), kind)
                ent = allowed.get(ak)
                if ent is not None and sorted(ent.get("missing", miss)) == miss:
                    used.add(ak)
                    n_partial_ok += 1
                    run.oblige()
                    continue
                run.oblige(ok=False)
                run.add(Finding("K5", "%s|%s|%s|%s" % (fn_key(fn), pathstr(fn, key), kind, ",".join(map(str, miss))),
                                "limbcov K5: %s (%s:%s) %ss limbs %s of the %d-limb value `%s` but never limb%s %s: a whole-value "
                                "operation must touch every limb (or be listed, with the reason, in tables/limbcov.json)" % (
                                    fn["name"], fn["file"], a["line"], kind, sorted(S), n, pathstr(fn, key),
                                    "s" if len(miss) > 1 else "", miss),
                                config=cfg, site="%s:%s" % (fn["file"], a["line"]), prop=prop))
    run.stats = getattr(run, "stats", {})
    run.stats.update(k5_fns=n_fns, k5_full=n_full, k5_partial_reviewed=n_partial_ok)
    return n_full


# ---------------------------------------------------------------------------
# K5b: limb dependence of returned scalars
# ---------------------------------------------------------------------------

class FnDeps(FnCov):
    """Flow-insensitive data dependence of every local on the limbs (array key, index) of fixed-size arrays reached
    from any local.  Loop-indexed reads contribute the whole index interval; a value defined in a loop therefore
    over-approximates (more limbs => fewer reports, never more)."""

    def __init__(self, facts, fn):
        FnCov.__init__(self, facts, fn)
        # every non-alias local is a root too (local values of backend types)
        for l in range(len(fn["locals"])):
            if l not in self.alias:
                self.alias[l] = (l, ())
        self.D = {}      # local -> {key: mask}
        self.N = {}      # key -> n
        self.indexed = set()   # keys accessed limb by limb in this function
        self._under = {}

    MIN_N = 2
    LEAVES = False     # also report non-array leaf fields as one-cell 'arrays' (must-write analysis)

    def arr_n(self, td):
        """element count of an array type (layout-derived when the length is an unevaluated associated const)."""
        if isinstance(td.get("len"), int):
            return td["len"]
        et = self.f.ty(td["elem"])
        if td.get("size") and et.get("size"):
            return td["size"] // et["size"]
        return None

    def arrays_under(self, tid, depth=0):
        """[(path, n)] of fixed-size arrays (n >= MIN_N) inside type tid (through refs and struct fields)."""
        if tid in self._under:
            return self._under[tid]
        out = []
        self._under[tid] = out
        td = self.f.ty(tid)
        k = td.get("k")
        if k in ("ref", "ptr"):
            out.extend(self.arrays_under(td["to"], depth))
        elif k == "array":
            n = self.arr_n(td)
            if n is not None and n >= self.MIN_N:
                out.append(((), n))
        elif k == "adt" and not td.get("enum") and not td.get("union") and td.get("variants") and depth < 3:
            fields = td["variants"][0][2]
            for i, fl in enumerate(fields):
                ftd = self.f.ty(fl[1])
                if ftd.get("k") == "array" and self.arr_n(ftd) is None and len(fields) == 1:
                    # [T; Self::N] (gfgen): the newtype's layout gives the element count
                    et = self.f.ty(ftd["elem"])
                    if td.get("size") and et.get("size") and td["size"] // et["size"] >= self.MIN_N:
                        out.append(((("f", i),), td["size"] // et["size"]))
                    continue
                sub = self.arrays_under(fl[1], depth + 1)
                for p, n in sub:
                    out.append(((("f", i),) + p, n))
                if not sub and self.LEAVES and ftd.get("k") not in ("array",):
                    out.append(((("f", i),), 1))
        elif k == "tuple" and depth < 3:
            for i, t in enumerate(td.get("elems", [])):
                for p, n in self.arrays_under(t, depth + 1):
                    out.append(((("f", i),) + p, n))
        return out

    @staticmethod
    def join(a, b):
        if not b:
            return a, False
        ch = False
        for k, m in b.items():
            o = a.get(k, 0)
            if o | m != o:
                a[k] = o | m
                ch = True
        return a, ch

    def place_deps(self, pl, bi):
        """dependence of reading place pl."""
        sp = self.split_index(pl)
        if sp is not None:
            pre, ie, _ = sp
            base = self.resolve(pre)
            if base is not None:
                tid = self.key_ty(base)
                n = self.arr_len(tid)
                if n is not None and n >= 2:
                    k = self.canon(base)
                    self.N[k] = n
                    self.indexed.add(k)
                    if ie[0] == "c":
                        idx = (n - ie[1]) if ie[3] else ie[1]
                        return {k: 1 << idx} if 0 <= idx < n else {k: (1 << n) - 1}
                    if ie[0] == "i":
                        self.ev.at_block(bi)
                        rng = self.ev.ival(ie[1], bi)
                        if rng is None or rng[0] < 0 or rng[1] >= n:
                            return {k: (1 << n) - 1}
                        return {k: ((1 << (rng[1] + 1)) - 1) & ~((1 << rng[0]) - 1)}
                    return {k: (1 << n) - 1}
            # untracked indexed place (slice, small array): dependence of the root local
            return dict(self.D.get(pl[0], {}))
        base = self.resolve(pl)
        out = dict(self.D.get(pl[0], {}))
        if base is not None:
            tid = self.key_ty(base)
            if tid is not None:
                ck = self.canon(base)
                for p, n in self.arrays_under(tid):
                    k = (ck[0], ck[1] + p)
                    self.N[k] = n
                    out[k] = out.get(k, 0) | ((1 << n) - 1)
        return out

    def op_deps(self, op, bi):
        if op[0] in ("cp", "mv"):
            return self.place_deps(op[1], bi)
        return {}

    def rv_deps(self, rv, bi):
        k = rv[0]
        out = {}
        if k == "use":
            return self.op_deps(rv[1], bi)
        if k == "bin":
            self.join(out, self.op_deps(rv[2], bi))
            self.join(out, self.op_deps(rv[3], bi))
        elif k in ("un", "cast"):
            self.join(out, self.op_deps(rv[2], bi))
        elif k == "agg":
            for o in rv[2]:
                self.join(out, self.op_deps(o, bi))
        elif k == "repeat":
            self.join(out, self.op_deps(rv[1], bi))
        elif k in ("ref", "rawptr"):
            self.join(out, self.place_deps(rv[2], bi))
        elif k == "discr":
            self.join(out, self.place_deps(rv[1], bi))
        return out

    def write(self, dest, deps):
        root = dest[0]
        d = self.D.setdefault(root, {})
        _, ch = self.join(d, deps)
        # a write through a reference-typed alias local updates the aliased root local as well
        if root in self.alias and self.alias[root][0] != root:
            d2 = self.D.setdefault(self.alias[root][0], {})
            _, c2 = self.join(d2, deps)
            ch = ch or c2
        return ch

    def solve(self):
        b = self.b
        for _ in range(12):
            ch = False
            for bi in sorted(b.reach):
                blk = b.blocks[bi]
                for s in blk["s"]:
                    if s[0] != "A":
                        continue
                    if self.write(s[1], self.rv_deps(s[2], bi)):
                        ch = True
                t = blk["t"]
                if t[0] == "call":
                    deps = {}
                    for o in t[2]:
                        self.join(deps, self.op_deps(o, bi))
                    if t[3] and self.write(t[3], deps):
                        ch = True
                    # out-parameters: the callee may write what it read into any `&mut` argument's target
                    for o in t[2]:
                        if o[0] in ("cp", "mv") and len(o[1]) == 1:
                            l = o[1][0]
                            td = self.f.ty(b.local_ty(l))
                            if td.get("k") == "ref" and td.get("mut") and l in self.alias and self.alias[l][0] != l:
                                d2 = self.D.setdefault(self.alias[l][0], {})
                                _, c2 = self.join(d2, deps)
                                ch = ch or c2
            if not ch:
                break
        return self.D


def near_full(mask, n):
    c = bin(mask).count("1")
    return 0 < n - c <= slack(n) and c >= 2


def run_limbdeps(facts, run, prop, type_filter=None):
    tab = load_table()
    allowed = _Allowed(tab)
    cfg = facts.config
    n_ret = n_merge = 0
    for fn in facts.fns.values():
        if fn["kind"] == "Closure" or not fn["file"].startswith("src/"):
            continue
        if type_filter and not type_filter(fn):
            continue
        fd = FnDeps(facts, fn)
        try:
            D = fd.solve()
        except RecursionError:
            continue
        b = fd.b

        def report(kind, k, mask, n, line, what):
            miss = [i for i in range(n) if not (mask >> i) & 1]
            ak = (fn_key(fn), pathstr(fn, k), kind)
            ent = allowed.get(ak)
            if ent is not None and sorted(ent.get("missing", miss)) == miss:
                run.oblige()
                return
            run.oblige(ok=False)
            run.add(Finding("K5b", "%s|%s|%s|%s" % (fn_key(fn), pathstr(fn, k), kind, ",".join(map(str, miss))),
                            "limbcov K5b: in %s (%s:%s) %s depends on limbs %s of the %d-limb value `%s` but not on limb%s %s" % (
                                fn["name"], fn["file"], line, what, [i for i in range(n) if (mask >> i) & 1], n,
                                pathstr(fn, k), "s" if len(miss) > 1 else "", miss),
                            config=cfg, site="%s:%s" % (fn["file"], line), prop=prop))

        # r1: returned scalar
        rt = facts.ty(b.local_ty(0))
        if rt.get("k") in ("uint", "int", "bool"):
            for k, mask in sorted(D.get(0, {}).items(), key=str):
                n = fd.N.get(k)
                if not n:
                    continue
                if k not in fd.indexed:
                    continue
                if mask == (1 << n) - 1:
                    n_ret += 1
                    run.oblige()
                    if n_ret % 41 == 0:
                        run.sample("K5b %s: the returned %s depends on every limb of %s (config %s)" % (fn["name"], rt["s"], pathstr(fn, k), cfg))
                elif near_full(mask, n):
                    report("return", k, mask, n, fn["line"], "the returned %s" % rt["s"])
    run.stats = getattr(run, "stats", {})
    run.stats.update(k5b_returns_full=n_ret)
    return n_ret


# ---------------------------------------------------------------------------
# K5c: sibling call sequences over limbs -- one index used twice while another is skipped
# ---------------------------------------------------------------------------

def _chase_limb_place(b, pl, depth=0):
    """follow copies (`let a1 = self.0[1]`, tuple destructuring of `(self.0[0], self.0[1])`) back to an indexed place."""
    for _ in range(8):
        if any(e != "*" and e[0] in ("i", "c") for e in pl[1:]):
            return pl
        if len(pl) == 1:
            d = b.single_def(pl[0])
            if d and d[2] == "A" and d[3][2][0] == "use" and d[3][2][1][0] in ("cp", "mv"):
                pl = d[3][2][1][1]
                continue
            return None
        if len(pl) == 2 and pl[1] != "*" and pl[1][0] == "f":
            d = b.single_def(pl[0])
            if d and d[2] == "A" and d[3][2][0] == "agg" and pl[1][1] < len(d[3][2][2]):
                o = d[3][2][2][pl[1][1]]
                if o[0] in ("cp", "mv"):
                    pl = o[1]
                    continue
            return None
        return None
    return None


def run_limbseq(facts, run, prop, type_filter=None):
    """Within one function, the calls to one callee (addcarry / subborrow / umull ... chains) that take `A[k]` (constant k,
    same array A) in the same argument position form a sequence of limb indices.  A sequence that uses some index twice
    while skipping an index in between is the copy-and-paste slip `A[1], A[1], A[3]`: reported unless reviewed."""
    tab = load_table()
    allowed = _Allowed(tab)
    cfg = facts.config
    n_seq = 0
    for fn in facts.fns.values():
        if fn["kind"] == "Closure" or not fn["file"].startswith("src/"):
            continue
        if type_filter and not type_filter(fn):
            continue
        fd = FnDeps(facts, fn)
        b = fd.b
        seqs = {}
        for bi in b.rpo():
            if bi not in b.reach:
                continue
            t = b.blocks[bi]["t"]
            if t[0] != "call":
                continue
            for pos, o in enumerate(t[2]):
                if o[0] not in ("cp", "mv"):
                    continue
                pl = _chase_limb_place(b, o[1])
                if pl is None:
                    continue
                sp = fd.split_index(pl)
                if sp is None or sp[2]:
                    continue
                base = fd.resolve(sp[0])
                if base is None:
                    continue
                n = fd.arr_len(fd.key_ty(base))
                if n is None or n < 2:
                    continue
                ie = sp[1]
                if ie[0] == "c":
                    idx = ie[1]
                elif ie[0] == "i":
                    iv = fd.ev.at_block(bi).ival(ie[1], bi)
                    if iv is None or iv[0] != iv[1]:
                        continue
                    idx = int(iv[0])
                else:
                    continue
                seqs.setdefault((t[1]["f"], pos, fd.canon(base), n), []).append((idx, t[5]))
        for (callee, pos, key, n), seq in sorted(seqs.items(), key=str):
            idxs = [i for i, _l in seq]
            if len(idxs) < 3:
                continue
            n_seq += 1
            dup = sorted(set(i for i in idxs if idxs.count(i) > 1))
            miss = [i for i in range(min(idxs), max(idxs) + 1) if i not in idxs]
            # a slip = exactly one duplicated index, exactly one missing, and the sequence otherwise has no repeats
            if len(dup) == 1 and len(miss) == 1 and idxs.count(dup[0]) == 2 and len(idxs) == len(set(idxs)) + 1:
                ak = (fn_key(fn), pathstr(fn, key), "seq")
                if ak in allowed:
                    run.oblige()
                    continue
                line = [l for i, l in seq if i == dup[0]][-1]
                run.oblige(ok=False)
                run.add(Finding("K5c", "%s|%s|%s|%d" % (fn_key(fn), pathstr(fn, key), callee.split("::")[-1], pos),
                                "limbcov K5c: in %s (%s:%s) the calls to %s take limbs %s of `%s` as argument %d: limb %d is used twice "
                                "and limb %d never (index slip in a limb chain)" % (
                                    fn["name"], fn["file"], line, callee.split("::")[-1], idxs, pathstr(fn, key), pos, dup[0], miss[0]),
                                config=cfg, site="%s:%s" % (fn["file"], line), prop=prop))
            else:
                run.oblige()
    run.stats = getattr(run, "stats", {})
    run.stats.update(k5c_sequences=n_seq)
    return n_seq


def _root_local(b, o):
    """Local an argument operand is a plain copy of (chasing `_t = copy _m`), or None for anything computed."""
    if o[0] not in ("cp", "mv") or len(o[1]) != 1:
        return None
    l = o[1][0]
    for _ in range(6):
        d = b.single_def(l)
        if d and d[2] == "A" and d[3][2][0] == "use" and d[3][2][1][0] in ("cp", "mv") and len(d[3][2][1][1]) == 1:
            l = d[3][2][1][1][0]
        else:
            break
    return l


def run_argswap(facts, run, prop, type_filter=None):
    """K5f: within one function, a chain of >= 4 calls to one crate-local callee in which every call but one passes the
    same two locals (a, b) in argument positions (p, q), and the remaining call passes exactly (b, a): the transposed
    pair in one row of an unrolled table scan / select chain.  Counts the unanimous chains examined."""
    cfg = facts.config
    n_chain = 0
    for fn in facts.fns.values():
        if fn["kind"] == "Closure" or not fn["file"].startswith("src/"):
            continue
        if type_filter and not type_filter(fn):
            continue
        b = Body(fn)
        calls = {}
        for bi in b.rpo():
            if bi not in b.reach:
                continue
            t = b.blocks[bi]["t"]
            if t[0] != "call" or not t[1].get("l"):
                continue
            roots = [_root_local(b, o) for o in t[2]]
            calls.setdefault(t[1]["f"], []).append((roots, t[5]))
        for callee, cl in sorted(calls.items()):
            if len(cl) < 4:
                continue
            argc = len(cl[0][0])
            if any(len(r) != argc for r, _l in cl):
                continue
            for p in range(argc):
                for q in range(p + 1, argc):
                    pairs = [(r[p], r[q]) for r, _l in cl]
                    if any(a is None or c is None for a, c in pairs):
                        continue
                    ty_p = fn["locals"][pairs[0][0]][0]
                    ty_q = fn["locals"][pairs[0][1]][0]
                    if ty_p != ty_q:
                        continue
                    common = max(set(pairs), key=pairs.count)
                    if common[0] == common[1]:
                        continue
                    k = pairs.count(common)
                    if k == len(pairs):
                        n_chain += 1
                        run.oblige()
                        continue
                    odd = [i for i, x in enumerate(pairs) if x != common]
                    if k == len(pairs) - 1 and pairs[odd[0]] == (common[1], common[0]):
                        n_chain += 1
                        line = cl[odd[0]][1]
                        nm = lambda l: fn["locals"][l][1] or "_%d" % l
                        run.oblige(ok=False)
                        run.add(Finding("K5f", "%s|%s|%d,%d" % (fn_key(fn), callee.split("::")[-1], p + 1, q + 1),
                                        "limbcov K5f: in %s (%s:%s) %d of the %d calls to %s pass (`%s`, `%s`) as arguments %d and %d; "
                                        "this one passes them transposed" % (
                                            fn["name"], fn["file"], line, k, len(pairs), callee.split("::")[-1],
                                            nm(common[0]), nm(common[1]), p + 1, q + 1),
                                        config=cfg, site="%s:%s" % (fn["file"], line), prop=prop))
    run.stats = getattr(run, "stats", {})
    run.stats.update(k5f_chains=n_chain)
    return n_chain


# ---------------------------------------------------------------------------
# K5d: a decoder overwrites its whole receiver on every path
# ---------------------------------------------------------------------------

DECODER_RE = r"crrl::backend::.*::set_decode(_ct|_reduce|32|_raw|\d+_reduce)"


class MustWrite:
    """Forward must-analysis: which limbs of parameter 1's limb arrays are definitely written when the function returns."""

    def __init__(self, facts, memo):
        self.f = facts
        self.memo = memo

    def fully_writes(self, fid, depth=0):
        if fid in self.memo:
            return self.memo[fid]
        self.memo[fid] = False     # recursion: assume not
        fn = self.f.fns.get(fid)
        res = False
        if fn is not None and fn["argc"] >= 1 and depth < 6:
            res = self.analyse(fn, depth)[0]
        self.memo[fid] = res
        return res

    def analyse(self, fn, depth=0):
        """-> (all limbs written on every returning path, description of the first offending return path)"""
        fd = FnDeps(self.f, fn)
        fd.MIN_N = 1
        fd.LEAVES = True
        b = fd.b
        td = self.f.ty(b.local_ty(1))
        if td.get("k") != "ref" or not td.get("mut"):
            return False, "receiver is not &mut"
        arrays = fd.arrays_under(td["to"])
        if not arrays:
            return False, "no limb array in the receiver"
        FULL = {}
        for pth, n in arrays:
            FULL[pth] = (1 << n) - 1
        loops = b.loops()
        # loop-complete writes: Range loops whose indexed write dominates every latch
        def write_of(place, bi):
            """{path: mask} written by an assignment to `place` (None when not about the receiver)."""
            if place[0] not in fd.alias or fd.alias[place[0]][0] != 1:
                return None
            sp = fd.split_index(place)
            if sp is None:
                base = fd.resolve(place)
                if base is None:
                    return None
                ck = fd.canon(base)[1]
                out = {}
                for pth, m in FULL.items():
                    if pth[:len(ck)] == ck:
                        out[pth] = m
                return out
            pre, ie, _rest = sp
            if _rest:
                return {}
            base = fd.resolve(pre)
            if base is None:
                return None
            ck = fd.canon(base)[1]
            if ck not in FULL:
                return {}
            n = bin(FULL[ck]).count("1")
            if ie[0] == "c":
                return {ck: 1 << ie[1]}
            if ie[0] == "i":
                iv = fd.ev.at_block(bi).ival(ie[1], bi)
                if iv is not None and iv[0] == iv[1] and 0 <= iv[0] < n:
                    return {ck: 1 << int(iv[0])}
                if iv is not None and 0 <= iv[0] and iv[1] < n:
                    return {("loop", ck): ((1 << (int(iv[1]) + 1)) - 1) & ~((1 << int(iv[0])) - 1)}
            return {}

        gen = {bi: {} for bi in b.reach}
        loopgen = {}
        for bi in sorted(b.reach):
            blk = b.blocks[bi]
            writes = []
            for s in blk["s"]:
                if s[0] == "A":
                    w = write_of(s[1], bi)
                    if w:
                        writes.append(w)
            t = blk["t"]
            if t[0] == "call":
                if t[3]:
                    w = write_of(t[3], bi)
                    if w:
                        writes.append(w)
                # a callee that fully overwrites its own receiver, called on (a reborrow of) ours
                if t[1].get("l") and t[1].get("id") in self.f.fns and t[2]:
                    a0 = t[2][0]
                    if a0[0] in ("cp", "mv") and len(a0[1]) == 1 and a0[1][0] in fd.alias and fd.alias[a0[1][0]][0] == 1:
                        ck = fd.canon(fd.alias[a0[1][0]])[1]
                        if self.fully_writes(t[1]["id"], depth + 1):
                            writes.append({pth: m for pth, m in FULL.items() if pth[:len(ck)] == ck})
                    elif a0[0] in ("cp", "mv") and len(a0[1]) == 1:
                        # `self.0[k].set_decode_ct(..)`: the receiver is one element of our array
                        dd = b.single_def(a0[1][0])
                        if dd and dd[2] == "A" and dd[3][2][0] == "ref" and dd[3][2][1] and self.fully_writes(t[1]["id"], depth + 1):
                            w = write_of(dd[3][2][2], dd[0])
                            if w:
                                writes.append(w)
            for w in writes:
                for k, m in w.items():
                    if isinstance(k[0], str) and k[0] == "loop":
                        # credited at loop exit when the write happens in every iteration
                        inner = [h for h, body_ in loops.items() if bi in body_]
                        if inner:
                            h = min(inner, key=lambda x: len(loops[x]))
                            latches = [p_ for p_ in b.pred[h] if p_ in loops[h]]
                            if all(b.dominates(bi, l_) for l_ in latches):
                                loopgen.setdefault(h, {})
                                loopgen[h][k[1]] = loopgen[h].get(k[1], 0) | m
                    else:
                        gen[bi][k] = gen[bi].get(k, 0) | m
        # forward must dataflow (intersection at joins)
        TOP = dict(FULL)
        inn = {bi: None for bi in b.reach}
        entry = 0
        inn[entry] = {k: 0 for k in FULL}
        work = [entry]
        outs = {}
        it = 0
        while work and it < 5000:
            it += 1
            bi = work.pop()
            st = dict(inn[bi])
            for k, m in gen[bi].items():
                st[k] = st.get(k, 0) | m
            outs[bi] = st
            for s_ in b.succ[bi]:
                if s_ not in inn:
                    continue
                ns = dict(st)
                # leaving loop h through its iterator-exhausted exit: credit the per-iteration writes
                for h, lg in loopgen.items():
                    if bi in loops[h] and s_ not in loops[h] and _is_iter_exit(b, bi):
                        for k, m in lg.items():
                            ns[k] = ns.get(k, 0) | m
                old = inn[s_]
                if old is None:
                    inn[s_] = ns
                    work.append(s_)
                else:
                    mer = {k: old.get(k, 0) & ns.get(k, 0) for k in FULL}
                    if mer != old:
                        inn[s_] = mer
                        work.append(s_)
        bad = None
        for bi in b.reach:
            if b.blocks[bi]["t"][0] == "ret" and bi in outs:
                st = outs[bi]
                for k, m in FULL.items():
                    if st.get(k, 0) != m:
                        miss = [i for i in range(bin(m).count("1")) if not (st.get(k, 0) >> i) & 1]
                        bad = "limbs %s of %s may keep their previous value" % (miss, pathstr(fn, (1, k)))
        return bad is None, bad


def _dom(b, a, x):
    """a dominates x"""
    idom = b.idom()
    seen = 0
    while x != a and seen < 10000:
        nx = idom.get(x) if isinstance(idom, dict) else idom[x]
        if nx is None or nx == x:
            return False
        x = nx
        seen += 1
    return x == a


def _is_iter_exit(b, bi):
    t = b.blocks[bi]["t"]
    if t[0] != "switch":
        return False
    l = operand_local(t[1])
    d = b.single_def(l) if l is not None else None
    if d and d[2] == "A" and d[3][2][0] == "discr":
        src = d[3][2][1][0]
        dd = b.single_def(src)
        return bool(dd and dd[2] == "call" and "Iterator" in dd[3][1]["f"] and dd[3][1]["f"].endswith("::next"))
    return False


def run_fullwrite(facts, run, prop):
    import re as _re
    cfg = facts.config
    mw = MustWrite(facts, {})
    n = 0
    for fn in facts.fns.values():
        if not _re.fullmatch(DECODER_RE, norm_name(fn["name"])):
            continue
        n += 1
        ok, why = mw.analyse(fn)
        run.oblige(ok=ok)
        if ok:
            if n % 7 == 0:
                run.sample("K5d %s: every limb of the receiver is written on every returning path (config %s)" % (fn["name"], cfg))
        else:
            run.add(Finding("K5d", norm_name(fn["name"]),
                            "limbcov K5d: decoder %s (%s:%s) does not overwrite its receiver on every path: %s (a decoder's result must be a "
                            "function of the input bytes only, also for rejected or empty input)" % (fn["name"], fn["file"], fn["line"], why),
                            config=cfg, site="%s:%s" % (fn["file"], fn["line"]), prop=prop))
    run.stats = getattr(run, "stats", {})
    run.stats.update(k5d_decoders=n)
    return n


# ---------------------------------------------------------------------------
# K6: a 64-bit quantity is not consumed only through its low 32 bits
# ---------------------------------------------------------------------------

def run_widecov(facts, run, prop, type_filter=None):
    """A by-value u64/i64 parameter (or a named local loaded from a field of self) whose *only* uses in the function are
    truncating casts to <= 32 bits loses its upper half -- the byte counter of a hash compression function rebuilt
    from `ctr as i32` alone.  Uses are followed through unnamed copy temporaries; any full-width use (shift, arithmetic,
    comparison, call argument, store) makes the value 'covered'."""
    import collections
    cfg = facts.config
    n = 0
    for fn in facts.fns.values():
        if not fn["file"].startswith("src/") or fn["kind"] == "Closure":
            continue
        if type_filter and not type_filter(fn):
            continue
        b = Body(fn)

        def bits(l):
            td = facts.ty(b.local_ty(l))
            # usize / isize are indices and lengths (their width is the target's, and `i as u32` on an index is routine)
            if td.get("k") in ("uint", "int") and td.get("s") not in ("usize", "isize"):
                return td.get("bits")
            return None
        cand = set()
        for l in range(1, len(fn["locals"])):
            if bits(l) != 64 or not fn["locals"][l][1]:
                continue
            if l <= fn["argc"]:
                cand.add(l)
            else:
                d = b.single_def(l)
                if d and d[2] == "A" and d[3][2][0] == "use" and d[3][2][1][0] in ("cp", "mv") and len(d[3][2][1][1]) > 1 \
                        and d[3][2][1][1][0] == 1:
                    cand.add(l)
        if not cand:
            continue
        uses = collections.defaultdict(lambda: [0, 0, None])

        def note(o, trunc=False, line=None):
            if o[0] in ("cp", "mv") and len(o[1]) == 1 and bits(o[1][0]) == 64:
                u = uses[o[1][0]]
                u[0 if trunc else 1] += 1
                if trunc:
                    u[2] = line
        copy_of = {}
        for bi in b.reach:
            for s_ in b.blocks[bi]["s"]:
                if s_[0] != "A":
                    continue
                rv = s_[2]
                if rv[0] == "cast" and rv[1] == "IntToInt":
                    td = facts.ty(rv[3])
                    note(rv[2], trunc=(td.get("k") in ("uint", "int") and td.get("bits", 64) <= 32), line=s_[3])
                elif rv[0] == "use":
                    if len(s_[1]) == 1 and not fn["locals"][s_[1][0]][1] and rv[1][0] in ("cp", "mv") and len(rv[1][1]) == 1 \
                            and b.single_def(s_[1][0]):
                        copy_of[s_[1][0]] = rv[1][1][0]
                    else:
                        note(rv[1])
                elif rv[0] == "bin":
                    note(rv[2])
                    note(rv[3])
                elif rv[0] in ("un", "cast"):
                    note(rv[2])
                elif rv[0] == "agg":
                    for o in rv[2]:
                        note(o)
                elif rv[0] == "repeat":
                    note(rv[1])
            t = b.blocks[bi]["t"]
            if t[0] == "call":
                for o in t[2]:
                    note(o)
            elif t[0] == "switch":
                note(t[1])
        for t_, src in copy_of.items():
            root = src
            while root in copy_of:
                root = copy_of[root]
            if bits(root) == 64:
                uses[root][0] += uses[t_][0]
                uses[root][1] += uses[t_][1]
                if uses[t_][2]:
                    uses[root][2] = uses[t_][2]
        for l in sorted(cand):
            tr, ot, line = uses[l]
            if tr + ot == 0:
                continue
            n += 1
            ok = not (tr >= 1 and ot == 0)
            run.oblige(ok=ok)
            if not ok:
                nm = fn["locals"][l][1]
                run.add(Finding("K6", "%s|%s" % (norm_name(fn["name"]), nm),
                                "limbcov K6: in %s (%s:%s) the 64-bit value `%s` is only ever used truncated to 32 bits or fewer: its upper half is lost "
                                "(e.g. a byte counter rebuilt from `%s as i32` alone)" % (fn["name"], fn["file"], line, nm, nm),
                                config=cfg, site="%s:%s" % (fn["file"], line), prop=prop))
    run.stats = getattr(run, "stats", {})
    run.stats.update(k6_wide_values=n)
    return n


# ---------------------------------------------------------------------------
# K5e: a slice parameter read from index a > 0 upwards, never below
# ---------------------------------------------------------------------------

def run_slicehead(facts, run, prop, type_filter=None):
    """For a slice parameter whose every element access in the function has a statically bounded index (constants, Range
    loop variables, at least one of them ranging over several indices) and that is not handed to anything but `len()` /
    `is_empty()`: if the smallest index ever accessed is
    a > 0, the first a elements are never looked at -- `for j in 1..v.len() { acc += v[j] * z }` without the constant
    term `v[0]`.  The number of slice parameters examined is the anchor (no such function exists on the reviewed tree)."""
    from .absint import FnEval, INF
    cfg = facts.config
    n = 0
    for fn in facts.fns.values():
        if not fn["file"].startswith("src/") or fn["kind"] == "Closure":
            continue
        if type_filter and not type_filter(fn):
            continue
        sp = [i for i in range(1, fn["argc"] + 1)
              if facts.ty(fn["locals"][i][0]).get("k") in ("ref", "ptr") and facts.ty(facts.ty(fn["locals"][i][0])["to"]).get("k") == "slice"]
        if not sp:
            continue
        b = Body(fn)
        ev = FnEval(facts, b)
        al = {p: p for p in sp}
        for _ in range(4):
            for l in range(fn["argc"] + 1, len(fn["locals"])):
                if l in al:
                    continue
                d = b.single_def(l)
                if d and d[2] == "A":
                    rv = d[3][2]
                    if rv[0] in ("ref", "rawptr") and len(rv[2]) == 2 and rv[2][1] == "*" and rv[2][0] in al:
                        al[l] = al[rv[2][0]]
                    elif rv[0] == "use" and rv[1][0] in ("cp", "mv") and len(rv[1][1]) == 1 and rv[1][1][0] in al:
                        al[l] = al[rv[1][1][0]]
        mins, unknown, whole, line, ranged = {}, set(), set(), {}, set()

        def visit(pl, bi, ln):
            if pl[0] in al and len(pl) >= 3 and pl[1] == "*" and pl[2] != "*" and pl[2][0] == "i":
                p = al[pl[0]]
                iv = ev.at_block(bi).ival(pl[2][1], bi)
                if iv is None:
                    unknown.add(p)
                else:
                    if iv[1] > iv[0]:
                        ranged.add(p)       # a loop over a range of indices, not a single fixed element
                    if iv[0] < mins.get(p, INF):
                        mins[p] = iv[0]
                        line[p] = ln
            elif pl[0] in al and len(pl) >= 3 and pl[1] == "*" and pl[2] != "*" and pl[2][0] in ("c", "s"):
                p = al[pl[0]]
                mins[p] = 0 if pl[2][0] == "s" or not pl[2][3] else mins.get(p, INF)
        for bi in b.reach:
            blk = b.blocks[bi]
            for s_ in blk["s"]:
                if s_[0] != "A":
                    continue
                visit(s_[1], bi, s_[3])
                rv = s_[2]
                ops = []
                if rv[0] == "use":
                    ops = [rv[1]]
                elif rv[0] == "bin":
                    ops = [rv[2], rv[3]]
                elif rv[0] in ("un", "cast"):
                    ops = [rv[2]]
                elif rv[0] == "agg":
                    ops = rv[2]
                elif rv[0] in ("ref", "rawptr"):
                    visit(rv[2], bi, s_[3])
                for o in ops:
                    if o[0] in ("cp", "mv"):
                        visit(o[1], bi, s_[3])
            t = blk["t"]
            if t[0] == "call" and not (t[1]["f"].endswith("::len") or t[1]["f"].endswith("::is_empty")):
                for o in t[2]:
                    if o[0] in ("cp", "mv") and len(o[1]) == 1 and o[1][0] in al:
                        whole.add(al[o[1][0]])
        for p, m in sorted(mins.items()):
            if p in unknown or p in whole or m == INF or p not in ranged:
                continue          # only loops over an index range say "all elements from a on"; `sig[113]` alone does not
            n += 1
            ok = m <= 0
            run.oblige(ok=ok)
            if not ok:
                nm = fn["locals"][p][1] or "_%d" % p
                run.add(Finding("K5e", "%s|%s" % (fn_key(fn), nm),
                                "limbcov K5e: %s (%s:%s) reads the slice `%s` from index %d upwards only: its first %d element(s) are never "
                                "looked at" % (fn["name"], fn["file"], line.get(p), nm, m, m),
                                config=cfg, site="%s:%s" % (fn["file"], line.get(p)), prop=prop))
    run.stats = getattr(run, "stats", {})
    run.stats.update(k5e_slices=n)
    return n
