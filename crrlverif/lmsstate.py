"""G6: LMS one-time-key state machine (C16), decided on the MIR of PrivateKey::sign.

S1 who-may-write: the leaf counter field is stored only inside `sign` (constructors build the whole struct).
S2 the single store `current_leaf = q + 1` (q = the value loaded on entry) dominates the call that produces the
   one-time signature and every `Some(..)` return.
S3 the index handed to the one-time signer is that same q.
S4 the store executes only on the edge where q < 2^h (h = the parameter set's const); `>=` vs `>` or a moved
   store are reported.
S5 on the exhausted edge nothing reachable from `self` is written (no store through self, no &mut self call)."""
import re

from .mir import Body, operand_local, const_int
from .absint import FnEval
from .report import Finding
from .ctflow import norm_name


def _field_index(facts, adt_name, field):
    for td in facts.types:
        if td.get("k") == "adt" and td.get("path") == adt_name and "variants" in td and td["variants"]:
            for i, f in enumerate(td["variants"][0][2]):
                if f[0] == field:
                    return i
    return None


def _chase_copy(body, l, depth=0):
    """Follow plain copies back to the originating local / place."""
    while depth < 10:
        d = body.single_def(l)
        if not d or d[2] != "A":
            return ("local", l)
        rv = d[3][2]
        if rv[0] == "use" and rv[1][0] in ("cp", "mv"):
            pl = rv[1][1]
            if len(pl) == 1:
                l = pl[0]
                depth += 1
                continue
            return ("place", pl, d[0])
        return ("local", l)
    return ("local", l)


def _check_outer(facts, sign, helper, hbody, h_some_blocks, qlocal):
    """sign() delegating the advance to `helper`: (a) every Some(..) the helper returns carries the entry value q;
    (b) in sign the call dominates ots_sign and every Some; (c) ots_sign receives the helper's payload; (d) sign itself
    stores nothing through self and hands self to nobody else except under the helper's success."""
    for bi in h_some_blocks:
        for s_ in hbody.blocks[bi]["s"]:
            if s_[0] == "A" and s_[1] == [0] and s_[2][0] == "agg" and s_[2][1].get("variant") == 1:
                l = operand_local(s_[2][2][0]) if s_[2][2] else None
                x = l
                ok = False
                for _ in range(8):
                    if x is None:
                        break
                    if x == qlocal:
                        ok = True
                        break
                    dd = hbody.single_def(x)
                    if dd and dd[2] == "A" and dd[3][2][0] == "use" and dd[3][2][1][0] in ("cp", "mv") and len(dd[3][2][1][1]) == 1:
                        x = dd[3][2][1][1][0]
                    else:
                        break
                if not ok:
                    return False, "the helper %s returns Some(x) with x not the pre-advance leaf index" % helper["name"]
    body = Body(sign)
    calls = [(bi, body.blocks[bi]["t"]) for bi in body.reach if body.blocks[bi]["t"][0] == "call" and body.blocks[bi]["t"][1].get("id") == helper["id"]]
    if len(calls) != 1:
        return False, "sign() calls the advancing helper %d times" % len(calls)
    cb, ct = calls[0]
    res = ct[3][0] if ct[3] and len(ct[3]) == 1 else None
    # locals derived from the helper's result (copies, Try::branch, downcast fields)
    derived = {res}
    changed = True
    while changed:
        changed = False
        for bi in body.reach:
            for s_ in body.blocks[bi]["s"]:
                if s_[0] == "A" and len(s_[1]) == 1 and s_[1][0] not in derived and s_[2][0] in ("use", "discr"):
                    src = s_[2][1][1] if s_[2][0] == "use" and s_[2][1][0] in ("cp", "mv") else (s_[2][1] if s_[2][0] == "discr" else None)
                    if src and src[0] in derived:
                        derived.add(s_[1][0])
                        changed = True
            t = body.blocks[bi]["t"]
            if t[0] == "call" and t[1]["f"].endswith("Try>::branch") and t[2] and operand_local(t[2][0]) in derived \
                    and t[3] and len(t[3]) == 1 and t[3][0] not in derived:
                derived.add(t[3][0])
                changed = True
    # success edge: the switch on a derived discriminant; Some / Continue
    ok_edge = None
    for bi in body.reach:
        t = body.blocks[bi]["t"]
        if t[0] == "switch" and operand_local(t[1]) in derived:
            dd = body.single_def(operand_local(t[1]))
            root = dd[3][2][1][0] if dd and dd[2] == "A" and dd[3][2][0] == "discr" else None
            rd = body.single_def(root) if root is not None else None
            via_branch = bool(rd and rd[2] == "call" and rd[3][1]["f"].endswith("Try>::branch"))
            want = 0 if via_branch else 1          # ControlFlow::Continue = 0, Option::Some = 1
            for v, b_ in t[2]:
                if int(v) == want:
                    ok_edge = b_
    if ok_edge is None:
        return False, "sign() does not branch on the result of %s" % helper["name"]
    ots = [(bi, body.blocks[bi]["t"]) for bi in body.reach if body.blocks[bi]["t"][0] == "call" and re.search(r"::ots_sign$", norm_name(body.blocks[bi]["t"][1]["f"]))]
    if not ots:
        modp = "::".join(norm_name(sign["name"]).split("::")[:-2]) + "::"
        ots = [(bi, body.blocks[bi]["t"]) for bi in body.reach
               if body.blocks[bi]["t"][0] == "call" and body.blocks[bi]["t"][1].get("l") and bi != cb
               and norm_name(body.blocks[bi]["t"][1]["f"]).startswith(modp)
               and any(operand_local(a_) in derived for a_ in body.blocks[bi]["t"][2])]
    somes = [bi for bi in body.reach for s_ in body.blocks[bi]["s"] if s_[0] == "A" and s_[1] == [0] and s_[2][0] == "agg" and s_[2][1].get("variant") == 1]
    if not ots or not somes or not all(body.dominates(ok_edge, b_) for b_, _t in ots) or not all(body.dominates(ok_edge, b_) for b_ in somes):
        return False, "the success of %s does not dominate ots_sign() and every Some(..) return of sign()" % helper["name"]
    for b_, t in ots:
        if not any(operand_local(a) in derived for a in t[2]):
            return False, "ots_sign() is not called with the index returned by %s" % helper["name"]
    for bi in body.reach:
        if body.dominates(ok_edge, bi):
            continue
        for s_ in body.blocks[bi]["s"]:
            if s_[0] == "A" and len(s_[1]) > 1 and s_[1][0] == 1:
                return False, "sign() stores through self outside the success path of %s (line %s)" % (helper["name"], s_[3])
        t = body.blocks[bi]["t"]
        if t[0] == "call" and bi != cb:
            for a in t[2]:
                l = operand_local(a)
                dd = body.single_def(l) if l is not None else None
                if l == 1 or (dd and dd[2] == "A" and dd[3][2][0] == "ref" and dd[3][2][1] and dd[3][2][2][0] == 1):
                    return False, "sign() hands self to %s outside the success path of %s" % (t[1]["f"], helper["name"])
    return True, None


def _limit_edges(body, t, r, c, limit):
    """(ok_edge, fail_edge) of a switch on `x <op> c` when the test is exactly x < limit, else None"""
    false_t = [z[1] for z in t[2] if int(z[0]) == 0]
    true_t = t[3]
    f0 = false_t[0] if false_t else None
    if r == "Ge" and c == limit:
        return f0, true_t
    if r == "Lt" and c == limit:
        return true_t, f0
    if r == "Gt" and c == limit - 1:
        return f0, true_t
    if r == "Le" and c == limit - 1:
        return true_t, f0
    return None


def succ_helper(facts, tgt, limit):
    """`fn next(q: u32) -> Option<u32>`: Some(q + 1) exactly on the edge q < limit, None otherwise (pure, private).
    -> True / False"""
    if tgt is None or tgt.get("reach") or tgt["argc"] < 1:
        return False
    rt = facts.ty(tgt["locals"][0][0])
    if not rt.get("s", "").startswith(("core::option::Option<u32", "std::option::Option<u32", "core::option::Option<u", "std::option::Option<u")):
        return False
    params = [i for i in range(1, tgt["argc"] + 1) if facts.ty(tgt["locals"][i][0]).get("k") == "uint"]
    if len(params) != 1:
        return False
    p = params[0]
    b = Body(tgt)

    def is_p(op):
        l = operand_local(op)
        for _ in range(6):
            if l is None:
                return False
            if l == p:
                return True
            d = b.single_def(l)
            if d and d[2] == "A" and d[3][2][0] == "use":
                l = operand_local(d[3][2][1])
            else:
                return False
        return False
    # no stores through references, no calls other than the checked/wrapping add
    guard = None
    ev = FnEval(facts, b)
    for bi in b.reach:
        for st in b.blocks[bi]["s"]:
            if st[0] == "A" and len(st[1]) > 1 and "*" in st[1][1:]:
                return False
        t = b.blocks[bi]["t"]
        if t[0] == "call" and not re.search(r"::(checked|wrapping)_add$", t[1]["f"]):
            return False
        if t[0] == "switch":
            l = operand_local(t[1])
            d = b.single_def(l) if l is not None else None
            if d and d[2] == "A" and d[3][2][0] == "bin" and d[3][2][1] in ("Ge", "Lt", "Gt", "Le") and is_p(d[3][2][2]):
                c = const_int(d[3][2][3])
                if c is None:
                    iv = ev.op_ival(d[3][2][3])
                    c = int(iv[0]) if iv is not None and iv[0] == iv[1] else None
                e = _limit_edges(b, t, d[3][2][1], c, limit) if c is not None else None
                if e is None or guard is not None:
                    return False
                guard = e
            elif d is not None:
                # any other branch (e.g. on the overflow flag of checked_add lowered inline) is not expected here
                return False
    if guard is None or guard[0] is None:
        return False
    ok_edge, fail_edge = guard
    some = 0
    for bi in b.reach:
        blk = b.blocks[bi]
        for st in blk["s"]:
            if st[0] == "A" and st[1] == [0]:
                rv = st[2]
                if rv[0] == "agg" and rv[1].get("variant") == 0:
                    continue            # None
                if rv[0] == "agg" and rv[1].get("variant") == 1 and rv[2]:
                    x = operand_local(rv[2][0])
                    d = b.single_def(x) if x is not None else None
                    if d and d[2] == "A" and d[3][2][0] == "bin" and d[3][2][1] in ("Add", "AddUnchecked") and is_p(d[3][2][2]) \
                            and const_int(d[3][2][3]) == 1 and b.dominates(ok_edge, bi):
                        some += 1
                        continue
                    if d and d[2] == "call" and re.search(r"::wrapping_add$", d[3][1]["f"]) and is_p(d[3][2][0]) and const_int(d[3][2][1]) == 1 \
                            and b.dominates(ok_edge, bi):
                        some += 1
                        continue
                return False
        t = blk["t"]
        if t[0] == "call" and t[3] == [0]:
            if re.search(r"::checked_add$", t[1]["f"]) and is_p(t[2][0]) and const_int(t[2][1]) == 1 and b.dominates(ok_edge, bi):
                some += 1
            else:
                return False
    return some >= 1


def run_lmsstate(facts, run, prop="C16"):
    cfg = facts.config
    mods = sorted(set(m.group(1) for n in facts.by_name for m in [re.match(r"(crrl::lms::[A-Za-z0-9_]+)::PrivateKey::sign$", norm_name(n))] if m))
    if len(mods) < 1:
        run.oblige(ok=False)
        run.add(Finding("G6", "anchor", "lmsstate: no LMS PrivateKey::sign found (rule would pass vacuously)", config=cfg, prop=prop))
        return
    for mod in mods:
        adt = mod + "::PrivateKey"
        fidx = _field_index(facts, adt, "current_leaf")
        if fidx is None:
            # renamed private field: the leaf counter is the one integer field of the private key (the others are byte
            # arrays: identifier, seed)
            ints = []
            for td in facts.types:
                if td.get("k") == "adt" and td.get("path") == adt and td.get("variants"):
                    ints = [i for i, f_ in enumerate(td["variants"][0][2]) if facts.ty(f_[1]).get("k") in ("uint", "int")]
            fidx = ints[0] if len(ints) == 1 else None
        hrec = facts.data.get(mod + "::h")
        h = None
        if hrec is not None and "bytes" in hrec:
            h = int.from_bytes(bytes.fromhex(hrec["bytes"]), "little")
        else:
            # the tree height is part of the (public) parameter-set name: LMS_.._H5_..
            mh = re.search(r"_H(\d+)_", mod)
            h = int(mh.group(1)) if mh else None
        if fidx is None or h is None:
            run.oblige(ok=False)
            run.add(Finding("G6", mod + "|anchor", "lmsstate: %s: leaf counter field or tree height not found" % mod, config=cfg, prop=prop))
            continue
        limit = 1 << h

        def bad(rule, what, fn, line=None):
            run.add(Finding("G6-" + rule, "%s|%s" % (re.sub(r"lms::[A-Za-z0-9_]+", "lms::*", mod), rule),
                            "lmsstate %s: %s (%s)" % (rule, what, mod), config=cfg,
                            site="%s:%s" % (fn["file"], line or fn["line"]), prop=prop))

        # ---- S1: stores to the counter field anywhere in the module ----
        stores = []
        for fn in facts.fns.values():
            if not norm_name(fn["name"]).startswith(mod + "::"):
                continue
            for bi, b in enumerate(fn["blocks"]):
                for s in b["s"]:
                    if s[0] != "A":
                        continue
                    pl = s[1]
                    for j, e in enumerate(pl[1:]):
                        if isinstance(e, list) and e[0] == "f" and e[1] == fidx:
                            # type of the prefix must be the private key
                            base_td = facts.ty(fn["locals"][pl[0]][0])
                            if base_td.get("k") in ("ref", "ptr"):
                                base_td = facts.ty(base_td["to"])
                            if j <= 1 and base_td.get("path") == adt:
                                stores.append((fn, bi, s))
        run.oblige(ok=True)
        outside = [x for x in stores if norm_name(x[0]["name"]) != mod + "::PrivateKey::sign"]
        helper = None
        if outside:
            # the advance may live in one private helper that only sign() calls (`fn advance(&mut self) -> Option<u32>`)
            hs = set(x[0]["id"] for x in outside)
            cand = outside[0][0]
            callers = set()
            for g in facts.fns.values():
                for b_ in g["blocks"]:
                    if b_["t"][0] == "call" and b_["t"][1].get("id") == cand["id"]:
                        callers.add(norm_name(g["name"]))
            if len(hs) == 1 and not cand.get("reach") and callers == {mod + "::PrivateKey::sign"} \
                    and not [x for x in stores if norm_name(x[0]["name"]) == mod + "::PrivateKey::sign"]:
                helper = cand
            else:
                run.discharged -= 1
                bad("S1", "the leaf counter is written outside sign(): %s" % outside[0][0]["name"], outside[0][0], outside[0][2][3])
        sign = facts.fn_named(mod + "::PrivateKey::sign")
        if sign is None:
            cands = [f for n, l in facts.by_name.items() if norm_name(n) == mod + "::PrivateKey::sign" for f in l]
            sign = cands[0] if cands else None
        if sign is None:
            run.oblige(ok=False)
            bad("S0", "sign not found", {"file": "src/lms.rs", "line": 0})
            continue
        outer = None
        if helper is not None:
            # the rules S2 (value, dominance over Some), S4, S5 are decided on the helper; sign() is then checked for:
            # the call dominates ots_sign and every Some, ots_sign receives the helper's payload, nothing touches self
            # before the call or on its None outcome
            outer = sign
            sign = helper
        body = Body(sign)
        mine = [x for x in stores if x[0] is sign]
        # ---- S2: exactly one store, of q + 1, q loaded from the field on entry ----
        run.oblige(ok=False)
        if len(mine) != 1:
            bad("S2", "expected exactly one store to current_leaf in sign(), found %d" % len(mine), sign)
            continue
        _fn, sb, st = mine[0]
        rv = st[2]
        qlocal = None
        okv = False
        if rv[0] == "use" and rv[1][0] in ("cp", "mv") and len(rv[1][1]) == 1:
            d = body.single_def(rv[1][1][0])
            if d and d[2] == "A":
                rv = d[3][2]
            elif d and d[2] == "call" and re.search(r"::(wrapping|saturating|checked)_add$", d[3][1]["f"]) and len(d[3][2]) == 2:
                rv = ["bin", "Add", d[3][2][0], d[3][2][1]]
        if rv[0] == "bin" and rv[1] in ("Add", "AddUnchecked", "AddWithOverflow") and const_int(rv[3]) == 1:
            l = operand_local(rv[2])
            if l is not None:
                o = _chase_copy(body, l)
                if o[0] == "place":
                    pl = o[1]
                    if pl[0] == 1 and any(isinstance(e, list) and e[0] == "f" and e[1] == fidx for e in pl[1:]):
                        okv = True
                        # the named local holding q: first copy of the field load
                        ql = l
                        while True:
                            dd = body.single_def(ql)
                            if dd and dd[2] == "A" and dd[3][2][0] == "use" and dd[3][2][1][0] in ("cp", "mv") and len(dd[3][2][1][1]) == 1:
                                ql = dd[3][2][1][1][0]
                            else:
                                break
                        qlocal = ql
        helper_guard = None
        if not okv:
            # `let next = Self::next_leaf(q)?; self.current_leaf = next;` -- the successor and its bound test live in a pure
            # private helper; `?` (or a match) hands over the payload only on the helper's Some edge
            rv0 = st[2]
            pl0 = rv0[1][1] if rv0[0] == "use" and rv0[1][0] in ("cp", "mv") else None
            for _ in range(6):
                if pl0 is None or len(pl0) != 1:
                    break
                d0 = body.single_def(pl0[0])
                if d0 and d0[2] == "A" and d0[3][2][0] == "use" and d0[3][2][1][0] in ("cp", "mv"):
                    pl0 = d0[3][2][1][1]
                else:
                    break
            if pl0 is not None and len(pl0) == 3 and isinstance(pl0[1], list) and pl0[1][0] == "d" and isinstance(pl0[2], list) and pl0[2][0] == "f":
                carrier = pl0[0]
                dc = body.single_def(carrier)
                call_t = None
                if dc and dc[2] == "call" and dc[3][1]["f"].endswith("Try>::branch") and dc[3][2]:
                    inner = operand_local(dc[3][2][0])
                    di = body.single_def(inner) if inner is not None else None
                    if di and di[2] == "call":
                        call_t = di[3]
                elif dc and dc[2] == "call":
                    call_t = dc[3]
                tgt = facts.fns.get(call_t[1].get("id")) if call_t is not None and call_t[1].get("l") else None
                if tgt is not None and succ_helper(facts, tgt, limit):
                    qa = [a_ for a_ in call_t[2] if operand_local(a_) is not None]
                    for a_ in qa:
                        l = operand_local(a_)
                        o = _chase_copy(body, l)
                        if o[0] == "place" and o[1][0] == 1 and any(isinstance(e, list) and e[0] == "f" and e[1] == fidx for e in o[1][1:]):
                            ql = l
                            while True:
                                dd = body.single_def(ql)
                                if dd and dd[2] == "A" and dd[3][2][0] == "use" and dd[3][2][1][0] in ("cp", "mv") and len(dd[3][2][1][1]) == 1:
                                    ql = dd[3][2][1][1][0]
                                else:
                                    break
                            qlocal = ql
                            okv = True
                    if okv:
                        # the edge on which the payload exists: the switch on the carrier's discriminant
                        want = pl0[1][1]
                        for bi in body.reach:
                            t_ = body.blocks[bi]["t"]
                            if t_[0] != "switch":
                                continue
                            dl = operand_local(t_[1])
                            dd = body.single_def(dl) if dl is not None else None
                            if dd and dd[2] == "A" and dd[3][2][0] == "discr" and dd[3][2][1] == [carrier]:
                                tg = dict((int(v_), b_) for v_, b_ in t_[2])
                                ok_e = tg.get(want, t_[3] if want not in tg else None)
                                others = [b_ for v_, b_ in t_[2] if int(v_) != want] + ([t_[3]] if want in tg else [])
                                others = [b_ for b_ in others if body.blocks[b_]["t"][0] != "unreachable"]
                                helper_guard = ("ok", bi, ok_e, others[0] if others else None, t_[4])
                        if helper_guard is None:
                            okv = False
        if not okv:
            bad("S2", "the stored value is not (entry value of current_leaf) + 1", sign, st[3])
            continue
        # dominance over the one-time signature and Some returns
        ots_blocks = []
        some_blocks = []
        for bi in body.reach:
            t = body.blocks[bi]["t"]
            if t[0] == "call" and re.search(r"::ots_sign$", norm_name(t[1]["f"])):
                ots_blocks.append((bi, t))
            for s in body.blocks[bi]["s"]:
                if s[0] == "A" and s[1] == [0] and s[2][0] == "agg" and s[2][1].get("variant") == 1:
                    some_blocks.append(bi)
        if not ots_blocks and outer is None:
            # the one-time signer under another name: a call into the same module that receives the leaf index q
            for bi in body.reach:
                t = body.blocks[bi]["t"]
                if t[0] != "call" or not t[1].get("l") or not norm_name(t[1]["f"]).startswith(mod + "::"):
                    continue
                for a_ in t[2]:
                    x = operand_local(a_)
                    for _ in range(8):
                        if x is None or x == qlocal:
                            break
                        dd = body.single_def(x)
                        if dd and dd[2] == "A" and dd[3][2][0] == "use" and dd[3][2][1][0] in ("cp", "mv") and len(dd[3][2][1][1]) == 1:
                            x = dd[3][2][1][1][0]
                        else:
                            x = None
                    if x == qlocal and qlocal is not None:
                        ots_blocks.append((bi, t))
                        break
        dom_ok = (bool(ots_blocks) or outer is not None) and all(body.dominates(sb, b) for b, _t in ots_blocks) and \
            all(body.dominates(sb, b) for b in some_blocks) and bool(some_blocks)
        if dom_ok and outer is not None:
            ok_h, why_h = _check_outer(facts, outer, sign, body, some_blocks, qlocal)
            if not ok_h:
                bad("S2", why_h, outer)
                continue
        if not dom_ok:
            bad("S2", "the store to current_leaf does not dominate ots_sign() and every Some(..) return", sign, st[3])
            continue
        run.discharged += 1
        # ---- S3: ots_sign receives the same q ----
        run.oblige(ok=False)
        s3 = True
        for b, t in ots_blocks:
            found = False
            for a in t[2]:
                l = operand_local(a)
                if l is None:
                    continue
                x = l
                while True:
                    if x == qlocal:
                        found = True
                        break
                    dd = body.single_def(x)
                    if dd and dd[2] == "A" and dd[3][2][0] == "use" and dd[3][2][1][0] in ("cp", "mv") and len(dd[3][2][1][1]) == 1:
                        x = dd[3][2][1][1][0]
                    else:
                        break
                if found:
                    break
            s3 = s3 and found
        if outer is not None:
            s3 = True      # decided by _check_outer (payload of the helper reaches ots_sign)
        if not s3:
            bad("S3", "ots_sign() is not called with the pre-advance leaf index", sign, ots_blocks[0][1][5])
        else:
            run.discharged += 1
        # ---- S4 / S5: guard edge ----
        run.oblige(ok=False)
        guard = helper_guard
        for bi in (body.reach if helper_guard is None else []):
            t = body.blocks[bi]["t"]
            if t[0] != "switch":
                continue
            l = operand_local(t[1])
            d = body.single_def(l) if l is not None else None
            if not d or d[2] != "A":
                continue
            r = d[3][2]
            if r[0] != "bin" or r[1] not in ("Ge", "Lt", "Gt", "Le"):
                continue
            la = operand_local(r[2])
            c = const_int(r[3])
            if c is None:
                iv = FnEval(facts, body).op_ival(r[3])
                if iv is not None and iv[0] == iv[1]:
                    c = int(iv[0])
            if la is None or c is None:
                continue
            x = la
            isq = False
            for _ in range(8):
                if x == qlocal:
                    isq = True
                    break
                dd = body.single_def(x)
                if dd and dd[2] == "A" and dd[3][2][0] == "use" and dd[3][2][1][0] in ("cp", "mv") and len(dd[3][2][1][1]) == 1:
                    x = dd[3][2][1][1][0]
                else:
                    break
            if not isq:
                continue
            false_t = [z[1] for z in t[2] if int(z[0]) == 0]
            true_t = t[3]
            # edge on which q < limit holds exactly
            if r[1] == "Ge" and c == limit:
                ok_edge, fail_edge = (false_t[0] if false_t else None), true_t
            elif r[1] == "Lt" and c == limit:
                ok_edge, fail_edge = true_t, (false_t[0] if false_t else None)
            elif r[1] == "Gt" and c == limit - 1:
                ok_edge, fail_edge = (false_t[0] if false_t else None), true_t
            elif r[1] == "Le" and c == limit - 1:
                ok_edge, fail_edge = true_t, (false_t[0] if false_t else None)
            else:
                guard = ("wrong", bi, r[1], c, t[4])
                continue
            guard = ("ok", bi, ok_edge, fail_edge, t[4])
            break
        if guard is None or guard[0] == "wrong":
            bad("S4", "no branch `q < 2^h` (2^h = %d) guards the advance%s" % (
                limit, "" if guard is None else "; found `q %s %s`" % (guard[2], guard[3])), sign,
                guard[4] if guard else None)
            continue
        _k, gb, ok_edge, fail_edge, gline = guard
        if ok_edge is None or not body.dominates(ok_edge, sb) or [p for p in body.pred[ok_edge] if p in body.reachset] != [gb]:
            bad("S4", "the store to current_leaf is not confined to the q < 2^h edge", sign, st[3])
            continue
        run.discharged += 1
        # S5: nothing written on the exhausted edge
        run.oblige(ok=False)
        s5 = True
        why = ""
        if fail_edge is not None:
            for bi in body.reach:
                if not body.dominates(fail_edge, bi):
                    continue
                for s in body.blocks[bi]["s"]:
                    if s[0] == "A" and len(s[1]) > 1 and s[1][0] == 1:
                        s5, why = False, "store through self at line %s" % s[3]
                t = body.blocks[bi]["t"]
                if t[0] == "call":
                    for a in t[2]:
                        l = operand_local(a)
                        if l == 1:
                            s5, why = False, "self passed to %s" % t[1]["f"]
        # also: no store through self before the guard (state must be unchanged when None is returned)
        for bi in body.reach:
            if body.dominates(bi, gb):
                for s in body.blocks[bi]["s"]:
                    if s[0] == "A" and len(s[1]) > 1 and s[1][0] == 1:
                        s5, why = False, "store through self before the exhaustion test (line %s)" % s[3]
        if not s5:
            bad("S5", "the exhausted path modifies the key state: %s" % why, sign, gline)
        else:
            run.discharged += 1
            run.sample("%s::PrivateKey::sign: store current_leaf=q+1 at bb%d dominates ots_sign and Some(..); guarded by q < %d; None path writes nothing" % (mod, sb, limit))
