"""G6: LMS one-time-key state machine (C16), decided on the MIR of PrivateKey::sign.

S1 who-may-write: the leaf counter field is stored only inside `sign` (constructors build the whole struct).
S2 the single store `current_leaf = q + 1` (q = the value loaded on entry) dominates the call that produces the
   one-time signature and every `Some(..)` return.
S3 the index handed to the one-time signer is that same q.
S4 the store executes only on the edge where q < 2^h (h = the parameter set's const); `>=` vs `>` or a moved
   store are reported.
S5 on the exhausted edge nothing reachable from `self` is written (no store through self, no &mut self call)."""
import re

from .mir import Body, operand_local, const_int
from .absint import FnEval
from .report import Finding
from .ctflow import norm_name


def _field_index(facts, adt_name, field):
    for td in facts.types:
        if td.get("k") == "adt" and td.get("path") == adt_name and "variants" in td and td["variants"]:
            for i, f in enumerate(td["variants"][0][2]):
                if f[0] == field:
                    return i
    return None


def _chase_copy(body, l, depth=0):
    """Follow plain copies back to the originating local / place."""
    while depth < 10:
        d = body.single_def(l)
        if not d or d[2] != "A":
            return ("local", l)
        rv = d[3][2]
        if rv[0] == "use" and rv[1][0] in ("cp", "mv"):
            pl = rv[1][1]
            if len(pl) == 1:
                l = pl[0]
                depth += 1
                continue
            return ("place", pl, d[0])
        return ("local", l)
    return ("local", l)


def run_lmsstate(facts, run, prop="C16"):
    cfg = facts.config
    mods = sorted(set(m.group(1) for n in facts.by_name for m in [re.match(r"(crrl::lms::[A-Za-z0-9_]+)::PrivateKey::sign$", norm_name(n))] if m))
    if len(mods) < 1:
        run.oblige(ok=False)
        run.add(Finding("G6", "anchor", "lmsstate: no LMS PrivateKey::sign found (rule would pass vacuously)", config=cfg, prop=prop))
        return
    for mod in mods:
        adt = mod + "::PrivateKey"
        fidx = _field_index(facts, adt, "current_leaf")
        hrec = facts.data.get(mod + "::h")
        if fidx is None or hrec is None or "bytes" not in hrec:
            run.oblige(ok=False)
            run.add(Finding("G6", mod + "|anchor", "lmsstate: %s: field current_leaf or const h not found" % mod, config=cfg, prop=prop))
            continue
        h = int.from_bytes(bytes.fromhex(hrec["bytes"]), "little")
        limit = 1 << h

        def bad(rule, what, fn, line=None):
            run.add(Finding("G6-" + rule, "%s|%s" % (re.sub(r"lms::[A-Za-z0-9_]+", "lms::*", mod), rule),
                            "lmsstate %s: %s (%s)" % (rule, what, mod), config=cfg,
                            site="%s:%s" % (fn["file"], line or fn["line"]), prop=prop))

        # ---- S1: stores to the counter field anywhere in the module ----
        stores = []
        for fn in facts.fns.values():
            if not norm_name(fn["name"]).startswith(mod + "::"):
                continue
            for bi, b in enumerate(fn["blocks"]):
                for s in b["s"]:
                    if s[0] != "A":
                        continue
                    pl = s[1]
                    for j, e in enumerate(pl[1:]):
                        if isinstance(e, list) and e[0] == "f" and e[1] == fidx:
                            # type of the prefix must be the private key
                            base_td = facts.ty(fn["locals"][pl[0]][0])
                            if base_td.get("k") in ("ref", "ptr"):
                                base_td = facts.ty(base_td["to"])
                            if j <= 1 and base_td.get("path") == adt:
                                stores.append((fn, bi, s))
        run.oblige(ok=True)
        outside = [x for x in stores if norm_name(x[0]["name"]) != mod + "::PrivateKey::sign"]
        if outside:
            run.discharged -= 1
            bad("S1", "the leaf counter is written outside sign(): %s" % outside[0][0]["name"], outside[0][0], outside[0][2][3])
        sign = facts.fn_named(mod + "::PrivateKey::sign")
        if sign is None:
            cands = [f for n, l in facts.by_name.items() if norm_name(n) == mod + "::PrivateKey::sign" for f in l]
            sign = cands[0] if cands else None
        if sign is None:
            run.oblige(ok=False)
            bad("S0", "sign not found", {"file": "src/lms.rs", "line": 0})
            continue
        body = Body(sign)
        mine = [x for x in stores if x[0] is sign]
        # ---- S2: exactly one store, of q + 1, q loaded from the field on entry ----
        run.oblige(ok=False)
        if len(mine) != 1:
            bad("S2", "expected exactly one store to current_leaf in sign(), found %d" % len(mine), sign)
            continue
        _fn, sb, st = mine[0]
        rv = st[2]
        qlocal = None
        okv = False
        if rv[0] == "use" and rv[1][0] in ("cp", "mv") and len(rv[1][1]) == 1:
            d = body.single_def(rv[1][1][0])
            if d and d[2] == "A":
                rv = d[3][2]
            elif d and d[2] == "call" and re.search(r"::(wrapping|saturating|checked)_add$", d[3][1]["f"]) and len(d[3][2]) == 2:
                rv = ["bin", "Add", d[3][2][0], d[3][2][1]]
        if rv[0] == "bin" and rv[1] in ("Add", "AddUnchecked", "AddWithOverflow") and const_int(rv[3]) == 1:
            l = operand_local(rv[2])
            if l is not None:
                o = _chase_copy(body, l)
                if o[0] == "place":
                    pl = o[1]
                    if pl[0] == 1 and any(isinstance(e, list) and e[0] == "f" and e[1] == fidx for e in pl[1:]):
                        okv = True
                        # the named local holding q: first copy of the field load
                        ql = l
                        while True:
                            dd = body.single_def(ql)
                            if dd and dd[2] == "A" and dd[3][2][0] == "use" and dd[3][2][1][0] in ("cp", "mv") and len(dd[3][2][1][1]) == 1:
                                ql = dd[3][2][1][1][0]
                            else:
                                break
                        qlocal = ql
        if not okv:
            bad("S2", "the stored value is not (entry value of current_leaf) + 1", sign, st[3])
            continue
        # dominance over the one-time signature and Some returns
        ots_blocks = []
        some_blocks = []
        for bi in body.reach:
            t = body.blocks[bi]["t"]
            if t[0] == "call" and re.search(r"::ots_sign$", norm_name(t[1]["f"])):
                ots_blocks.append((bi, t))
            for s in body.blocks[bi]["s"]:
                if s[0] == "A" and s[1] == [0] and s[2][0] == "agg" and s[2][1].get("variant") == 1:
                    some_blocks.append(bi)
        dom_ok = bool(ots_blocks) and all(body.dominates(sb, b) for b, _t in ots_blocks) and \
            all(body.dominates(sb, b) for b in some_blocks) and bool(some_blocks)
        if not dom_ok:
            bad("S2", "the store to current_leaf does not dominate ots_sign() and every Some(..) return", sign, st[3])
            continue
        run.discharged += 1
        # ---- S3: ots_sign receives the same q ----
        run.oblige(ok=False)
        s3 = True
        for b, t in ots_blocks:
            found = False
            for a in t[2]:
                l = operand_local(a)
                if l is None:
                    continue
                x = l
                while True:
                    if x == qlocal:
                        found = True
                        break
                    dd = body.single_def(x)
                    if dd and dd[2] == "A" and dd[3][2][0] == "use" and dd[3][2][1][0] in ("cp", "mv") and len(dd[3][2][1][1]) == 1:
                        x = dd[3][2][1][1][0]
                    else:
                        break
                if found:
                    break
            s3 = s3 and found
        if not s3:
            bad("S3", "ots_sign() is not called with the pre-advance leaf index", sign, ots_blocks[0][1][5])
        else:
            run.discharged += 1
        # ---- S4 / S5: guard edge ----
        run.oblige(ok=False)
        guard = None
        for bi in body.reach:
            t = body.blocks[bi]["t"]
            if t[0] != "switch":
                continue
            l = operand_local(t[1])
            d = body.single_def(l) if l is not None else None
            if not d or d[2] != "A":
                continue
            r = d[3][2]
            if r[0] != "bin" or r[1] not in ("Ge", "Lt", "Gt", "Le"):
                continue
            la = operand_local(r[2])
            c = const_int(r[3])
            if c is None:
                iv = FnEval(facts, body).op_ival(r[3])
                if iv is not None and iv[0] == iv[1]:
                    c = int(iv[0])
            if la is None or c is None:
                continue
            x = la
            isq = False
            for _ in range(8):
                if x == qlocal:
                    isq = True
                    break
                dd = body.single_def(x)
                if dd and dd[2] == "A" and dd[3][2][0] == "use" and dd[3][2][1][0] in ("cp", "mv") and len(dd[3][2][1][1]) == 1:
                    x = dd[3][2][1][1][0]
                else:
                    break
            if not isq:
                continue
            false_t = [z[1] for z in t[2] if int(z[0]) == 0]
            true_t = t[3]
            # edge on which q < limit holds exactly
            if r[1] == "Ge" and c == limit:
                ok_edge, fail_edge = (false_t[0] if false_t else None), true_t
            elif r[1] == "Lt" and c == limit:
                ok_edge, fail_edge = true_t, (false_t[0] if false_t else None)
            elif r[1] == "Gt" and c == limit - 1:
                ok_edge, fail_edge = (false_t[0] if false_t else None), true_t
            elif r[1] == "Le" and c == limit - 1:
                ok_edge, fail_edge = true_t, (false_t[0] if false_t else None)
            else:
                guard = ("wrong", bi, r[1], c, t[4])
                continue
            guard = ("ok", bi, ok_edge, fail_edge, t[4])
            break
        if guard is None or guard[0] == "wrong":
            bad("S4", "no branch `q < 2^h` (2^h = %d) guards the advance%s" % (
                limit, "" if guard is None else "; found `q %s %s`" % (guard[2], guard[3])), sign,
                guard[4] if guard else None)
            continue
        _k, gb, ok_edge, fail_edge, gline = guard
        if ok_edge is None or not body.dominates(ok_edge, sb) or [p for p in body.pred[ok_edge] if p in body.reachset] != [gb]:
            bad("S4", "the store to current_leaf is not confined to the q < 2^h edge", sign, st[3])
            continue
        run.discharged += 1
        # S5: nothing written on the exhausted edge
        run.oblige(ok=False)
        s5 = True
        why = ""
        if fail_edge is not None:
            for bi in body.reach:
                if not body.dominates(fail_edge, bi):
                    continue
                for s in body.blocks[bi]["s"]:
                    if s[0] == "A" and len(s[1]) > 1 and s[1][0] == 1:
                        s5, why = False, "store through self at line %s" % s[3]
                t = body.blocks[bi]["t"]
                if t[0] == "call":
                    for a in t[2]:
                        l = operand_local(a)
                        if l == 1:
                            s5, why = False, "self passed to %s" % t[1]["f"]
        # also: no store through self before the guard (state must be unchanged when None is returned)
        for bi in body.reach:
            if body.dominates(bi, gb):
                for s in body.blocks[bi]["s"]:
                    if s[0] == "A" and len(s[1]) > 1 and s[1][0] == 1:
                        s5, why = False, "store through self before the exhaustion test (line %s)" % s[3]
        if not s5:
            bad("S5", "the exhausted path modifies the key state: %s" % why, sign, gline)
        else:
            run.discharged += 1
            run.sample("%s::PrivateKey::sign: store current_leaf=q+1 at bb%d dominates ots_sign and Some(..); guarded by q < %d; None path writes nothing" % (mod, sb, limit))
