"""G7 (C17): reset re-establishes the state that new establishes; resetting finalisers pass through reset.

G7a field coverage: for each hash context type, the set of top-level fields written (transitively) by `reset`
    plus the reviewed dead-until-overwritten fields equals the set of fields of the type (all of which `new`
    initialises, being a struct literal).
G7b must-pass-through: every public function whose name contains `reset` (other than reset itself) or whose
    rustdoc says the context/instance is automatically reset reaches its return only through a call that
    resets `self` (a `reset` method, or a callee on self that itself always resets)."""
import re

from . import taint
from .mir import Body, operand_local
from .report import Finding
from .ctflow import norm_name

# per context type: the *types* of fields that are dead buffers after a reset (reviewed).  Field names are not used, so
# renaming a private field changes nothing.  Configuration fields (kept across resets by design: output length, saved
# key) are recognised structurally: no `&mut self` method of the type other than constructors ever stores to them.
CONTEXT_TYPES = {
    "crrl::sha2::SHA2Small": ["[u8; 64]"],
    "crrl::sha2::SHA2Big": ["[u8; 128]"],
    "crrl::sha3::SHA3Core": [],
    "crrl::sha3::SHAKE": [],
    "crrl::blake2s::Blake2s": [],
    "crrl::blake2s::KeyedBlake2s": [],
}
DEAD_WHY = {
    "[u8; 64]": "block buffer: its content is dead while the byte counter is zero (overwritten before being read)",
    "[u8; 128]": "block buffer: its content is dead while the byte counter is zero (overwritten before being read)",
}


def config_fields(facts, tname, nfields):
    """indices of fields of type tname that no method taking `&mut self` ever assigns (directly): set once at
    construction, hence configuration rather than state"""
    stored = set()
    for fn in facts.fns.values():
        if norm_name(fn.get("self_adt") or "") != tname or fn["argc"] < 1:
            continue
        td = facts.ty(fn["locals"][1][0])
        if not (td.get("k") in ("ref", "ptr") and td.get("mut")):
            continue
        if norm_name(facts.ty(td["to"]).get("path", "")) != tname:
            continue        # an associated function whose first parameter is `&mut` something else (`load_key(ctx: &mut Inner, ..)`)
        for b in fn["blocks"]:
            for st in b["s"]:
                if st[0] == "A" and st[1][0] == 1 and len(st[1]) >= 3 and st[1][1] == "*" and st[1][2] != "*" and st[1][2][0] == "f":
                    stored.add(st[1][2][1])
                elif st[0] == "A" and st[1][0] == 1 and len(st[1]) == 2 and st[1][1] == "*":
                    stored |= set(range(nfields))      # `*self = ..`
            t = b["t"]
            if t[0] == "call":
                # `&mut self.field` handed to a callee (copy_from_slice, set_*, fill ..): may store
                body = None
                for a in t[2]:
                    l = operand_local(a)
                    if l is None:
                        continue
                    if body is None:
                        body = Body(fn)
                    for _ in range(6):
                        d = body.single_def(l)
                        if not d or d[2] != "A":
                            break
                        rv = d[3][2]
                        if rv[0] in ("ref", "rawptr") and rv[1]:
                            pl = rv[2]
                            if pl[0] == 1 and len(pl) >= 3 and pl[1] == "*" and pl[2] != "*" and pl[2][0] == "f":
                                stored.add(pl[2][1])
                            break
                        if rv[0] in ("use", "cast") and (rv[1] if rv[0] == "use" else rv[2])[0] in ("cp", "mv"):
                            l = (rv[1] if rv[0] == "use" else rv[2])[1][0]
                            continue
                        if rv[0] in ("ref", "rawptr") and len(rv[2]) >= 2 and rv[2][1] == "*" and rv[2][0] != 1:
                            l = rv[2][0]
                            continue
                        break
    return set(range(nfields)) - stored


DOC_RESETS = re.compile(r"automatically\s+reset|(instance|context) is (then )?(also )?reset", re.I)
DOC_NOT = re.compile(r"\bnot\s+reset", re.I)


class _P(taint.Policy):
    implicit = False


def always_resets(facts, fn, memo, depth=0):
    """Every path from entry to return passes a call that resets self."""
    fid = fn["id"]
    if fid in memo:
        return memo[fid]
    memo[fid] = False
    if fn["item"] == "reset":
        memo[fid] = True
        return True
    if depth > 8:
        return False
    body = Body(fn)
    cut = set()
    for bi in body.reach:
        t = body.blocks[bi]["t"]
        if t[0] != "call" or not t[1]["l"]:
            continue
        tgt = facts.fns.get(t[1]["id"])
        if tgt is None or not t[2]:
            continue
        # receiver must be (derived from) self
        l = operand_local(t[2][0])
        derived = False
        for _ in range(8):
            if l is None:
                break
            if l == 1:
                derived = True
                break
            d = body.single_def(l)
            if d and d[2] == "A":
                rv = d[3][2]
                if rv[0] in ("ref", "rawptr"):
                    l = rv[2][0]
                    continue
                if rv[0] == "use" and rv[1][0] in ("cp", "mv"):
                    l = rv[1][1][0]
                    continue
            break
        if not derived:
            continue
        if always_resets(facts, tgt, memo, depth + 1):
            cut.add(bi)
    # `*self = Self::new(..)` (or `self.0 = Inner::new(..)` in a wrapper): the whole context replaced by a fresh one
    for bi in body.reach:
        for st_ in body.blocks[bi]["s"]:
            if st_[0] != "A" or st_[1][0] != 1 or len(st_[1]) < 2 or st_[1][1] != "*":
                continue
            if not all(e == "*" or (isinstance(e, list) and e[0] == "f") for e in st_[1][1:]) or len(st_[1]) > 3:
                continue
            if st_[2][0] != "use":
                continue
            src = operand_local(st_[2][1])
            d = body.single_def(src) if src is not None else None
            if d and d[2] == "call" and d[3][1].get("l"):
                tgt = facts.fns.get(d[3][1]["id"])
                if tgt is not None and tgt["item"] == "new" and tgt.get("self_adt"):
                    cut.add(bi)
    # reachability of a return avoiding cut blocks
    seen = set()
    st = [0]
    ok = True
    while st:
        x = st.pop()
        if x in seen or x in cut:
            continue
        seen.add(x)
        if body.blocks[x]["t"][0] == "ret":
            ok = False
            break
        st.extend(body.succ[x])
    memo[fid] = ok
    return ok


def run_hashreset(facts, run, prop="C17"):
    cfg = facts.config
    eng = taint.Engine(facts, _P())
    n_types = 0
    for tname, dead in CONTEXT_TYPES.items():
        resets = [fn for fn in facts.fns.values() if fn["item"] == "reset" and norm_name(fn.get("self_adt") or "") == tname]
        if not resets:
            run.oblige(ok=False)
            run.add(Finding("G7", tname + "|anchor", "hashreset: no reset() found for context type %s" % tname, config=cfg, prop=prop))
            continue
        n_types += 1
        fn = resets[0]
        td = facts.ty(fn["locals"][1][0])
        if td.get("k") in ("ref", "ptr"):
            td = facts.ty(td["to"])
        fields = [f_[0] for f_ in td["variants"][0][2]]
        def _tyname(tid):
            # byte arrays are named by their layout size: `[u8; BLOCK_LEN]` (a named const as length) is `[u8; 64]`
            t = facts.ty(tid)
            if t.get("k") == "array":
                et = facts.ty(t["elem"])
                if et.get("k") == "uint" and et.get("bits") == 8:
                    if t.get("size"):
                        return "[u8; %d]" % t["size"]
                    if not isinstance(t.get("len"), int):
                        # length written as a named const that the type table leaves unevaluated: the block buffer of this type
                        bufs = [d_ for d_ in dead if d_.startswith("[u8; ")]
                        if len(bufs) == 1:
                            return bufs[0]
            return t.get("s", "")
        ftypes = [_tyname(f_[1]) for f_ in td["variants"][0][2]]
        cfgf = config_fields(facts, tname, len(fields))
        dead = [fields[i] for i in range(len(fields)) if ftypes[i] in dead or i in cfgf]
        summ = eng.summary(fn)
        written = set()
        whole = False
        for (i, path) in summ.out:
            if i != 1:
                continue
            if not path:
                whole = True
            elif isinstance(path[0], int) and path[0] < len(fields):
                written.add(fields[path[0]])
        missing = [] if whole else [f_ for f_ in fields if f_ not in written and f_ not in dead]
        run.oblige(ok=not missing)
        if missing:
            run.add(Finding("G7a", "%s|%s" % (tname, ",".join(missing)),
                            "hashreset G7a: %s::reset (%s:%s) does not re-establish field(s) %s that new() initialises (written: %s)" % (
                                tname, fn["file"], fn["line"], ",".join(missing), "whole value" if whole else sorted(written)),
                            config=cfg, site="%s:%s" % (fn["file"], fn["line"]), prop=prop))
        else:
            run.sample("G7a %s::reset writes %s; reviewed dead fields %s" % (tname, "the whole value" if whole else sorted(written), dead))
    # G7b
    memo = {}
    n_ob = 0
    for fn in sorted(facts.fns.values(), key=lambda x: x["name"]):
        nn = norm_name(fn["name"])
        if not re.match(r"crrl::(sha2|sha3|blake2s)::", nn) or fn["kind"] != "AssocFn":
            continue
        doc = fn.get("doc", "")
        # private helpers (e.g. reset() split into reset_input()/reset_chain()) are not entry points: the public
        # functions that use them carry the obligation
        by_name = "reset" in fn["item"] and fn["item"] != "reset" and bool(fn.get("reach"))
        by_doc = bool(DOC_RESETS.search(doc)) and not DOC_NOT.search(doc) and fn["item"] != "reset"
        if not (by_name or by_doc):
            continue
        n_ob += 1
        ok = always_resets(facts, fn, memo)
        run.oblige(ok=ok)
        if not ok:
            run.add(Finding("G7b", nn, "hashreset G7b: %s (%s:%s) is %s as resetting the context but a path reaches its return without passing through reset()" % (
                fn["name"], fn["file"], fn["line"], "named" if by_name else "documented"), config=cfg,
                site="%s:%s" % (fn["file"], fn["line"]), prop=prop))
        elif n_ob % 9 == 0:
            run.sample("G7b %s always passes through reset()" % fn["name"])
    run.stats = getattr(run, "stats", {})
    run.stats.update(context_types=n_types, resetting_entry_points=n_ob)
    if n_ob < 20:
        run.oblige(ok=False)
        run.add(Finding("G7b", "anchor", "hashreset: only %d resetting entry points found (floor 20)" % n_ob, config=cfg, prop=prop))
