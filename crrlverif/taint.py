"""Label (information-flow / dependence) analysis over MIR.

Abstract store: cells (root, path) -> frozenset(labels); roots are locals or
('P', i) = pointee of parameter i; paths are tuples of field indices / '[]'
truncated at DEPTH.  Locals that may hold references carry a points-to set of
cells.  Function summaries are symbolic in the parameter atoms
('v', i, path) [by-value contents] and ('m', i, path) [pointee contents] and
are substituted at call sites, bottom-up over the call graph.

Used by ctflow (explicit flows, leak sinks) and gates (implicit flows on,
call-result sources)."""
from .mir import Body, term_succs

DEPTH = 3
EMPTY = frozenset()


def trunc(path):
    return path[:DEPTH]


def _ecompat(a, b):
    """Path elements denote possibly the same sub-object ('[]' = unknown array index, '#k' = constant index k)."""
    if a == b:
        return True
    if a == "[]":
        return b == "[]" or (isinstance(b, str) and b.startswith("#"))
    if b == "[]":
        return isinstance(a, str) and a.startswith("#")
    return False


def is_prefix(p, q):
    """p is (compatibly) a prefix of q."""
    if len(p) > len(q):
        return False
    for x, y in zip(p, q):
        if x is not y and x != y and not _ecompat(x, y):
            return False
    return True


def is_exact_prefix(p, q):
    return len(p) <= len(q) and q[:len(p)] == p


class Summary:
    __slots__ = ("ret", "ret_cells", "out", "must", "ret_alias", "sinks", "conservative")

    def __init__(self):
        self.ret = EMPTY            # labels of the return value (all paths joined)
        self.ret_cells = {}         # path -> labels of the return value
        self.out = {}               # (param i, path) -> labels written into the pointee
        self.must = frozenset()     # (param i, path) strongly overwritten on every path to return
        self.ret_alias = set()      # params whose pointees the return value may point into
        self.sinks = {}             # (kind, desc) -> labels reaching a sink
        self.conservative = False


class Policy:
    """Override to customise sources, sinks and external models."""
    implicit = False

    def call_labels(self, eng, fn, bi, callee, argvals):
        """Extra labels attached to every result of this call."""
        return EMPTY

    def on_sink(self, eng, fn, kind, site, labels, detail):
        pass

    def interesting_sink(self, kind):
        return True

    def param_atoms(self, eng, fn, i, path, by_value):
        return frozenset([("v" if by_value else "m", i, path)])


# ---------------------------------------------------------------------------
# external (std / core / rand_core) function models
# ---------------------------------------------------------------------------
# kinds:
#   pure      ret <- values of args (+ pointees of shared-ref args)
#   len       ret <- ('len',) marker only
#   view      ret aliases arg0's pointee (same cells); ret value labels <- none; index arg is a sink
#   elem      ret aliases arg0's pointee + '[]'; index arg is a sink
#   copy      pointee(arg0) <- pointee(arg1)
#   iter      ret value <- arg values; ret aliases the args' pointees (iterator over them)
#   next      ret <- iterator value labels; aliases what the iterator aliases
#   panic     diverges
#   rng       pointee(arg1) <- ('rng',)
#   cmp       ret <- args values and pointees; operands are 'value-read' sinks
#   default   conservative: everything flows everywhere

def ext_kind(name):
    n = name
    if n.startswith("core::panicking::") or n.startswith("std::rt::") or "::panic" in n and n.startswith("core::"):
        return "panic"
    if n.endswith("::len") and ("slice" in n or "Vec" in n or "str" in n):
        return "len"
    if n in ("core::slice::<impl [T]>::is_empty",):
        return "len"
    if "ops::Index<I> for [T]>::index" in n or "ops::IndexMut<I> for [T]>::index_mut" in n \
            or "ops::Index<I> for [T; N]>::index" in n or "ops::IndexMut<I> for [T; N]>::index_mut" in n \
            or "Vec<T, A> as core::ops::Index<I>>::index" in n or "Vec<T, A> as core::ops::IndexMut<I>>::index_mut" in n:
        return "view"
    if n.endswith("::copy_from_slice") or n.endswith("::clone_from_slice") or n.endswith("]>::fill"):
        return "copy"
    if n.endswith("::extend_from_slice"):
        return "copy"
    if n.endswith("Vec::<T, A>::push") or n.endswith("Vec::<T, A>::insert"):
        return "push"
    if n.endswith("Vec::<T, A>::resize"):
        return "push"
    if "Deref>::deref" in n or "DerefMut>::deref_mut" in n or n.endswith("::as_ref") or n.endswith("::as_bytes") \
            or n.endswith("::as_slice") or n.endswith("::as_mut_slice") or n.endswith("::as_mut"):
        return "view0"
    if n.endswith("::into_iter") or n.endswith("]>::iter") or n.endswith("]>::iter_mut") or n.endswith("::rev") \
            or n.endswith("::zip") or n.endswith("]>::chunks") or n.endswith("]>::chunks_exact") or n.endswith("]>::chunks_mut") \
            or n.endswith("]>::chunks_exact_mut") or n.endswith("]>::windows") or n.endswith("::by_ref") \
            or n.endswith("::enumerate") or n.endswith("::skip") \
            or n.endswith("::take") or n.endswith("::step_by") or n.endswith("RangeInclusive::<Idx>::new"):
        return "iter"
    if n.endswith("Iterator>::next") or n.endswith("::next") and "iter" in n:
        return "next"
    if n == "rand_core::RngCore::fill_bytes" or n.endswith("::fill_bytes") or n.endswith("::try_fill_bytes"):
        return "rng"
    if "TryFrom<&'a [T]> for &'a [T; N]>::try_from" in n or "TryFrom<&'a mut [T]> for &'a mut [T; N]>::try_from" in n:
        return "view0opt"
    if "TryFrom<&[T]> for [T; N]>::try_from" in n:
        return "pure"
    if n.endswith("Vec::<T>::new") or n.endswith("Vec::<T>::with_capacity"):
        return "pure"
    if n.endswith("::unwrap") or n.endswith("::expect") or n.endswith("Try>::branch") or "FromResidual" in n \
            or n.endswith("::unwrap_or") or n.endswith("::ok"):
        return "unwrap"
    if n.endswith("bool>::then_some"):
        return "then_some"
    if n.startswith("core::num::") or n.startswith("core::arch::") or n.startswith("core::core_arch::"):
        return "pure"
    if n.startswith("core::cmp::") or "PartialEq" in n or "PartialOrd" in n or n.endswith("::cmp") \
            or n.endswith("Iterator>::find") or n.endswith("]>::sort") or n.endswith("::find"):
        return "cmp"
    if n.startswith("core::fmt::") or "fmt::" in n:
        return "fmt"
    if n.endswith("::clone") or n.endswith("::into") or n.endswith("::from") or n.endswith("::default"):
        return "pure"
    if n.startswith("core::mem::") or n.startswith("core::intrinsics::") or n.startswith("core::ptr::"):
        return "pure"
    if n.startswith("core::hint::"):
        return "pure"
    return "default"


class Engine:
    def __init__(self, facts, policy):
        self.f = facts
        self.policy = policy
        self.summaries = {}
        self.in_progress = set()
        self.bodies = {}
        self.unmodelled = {}
        self.stats = dict(fns=0, blocks=0, iters=0)

    def body(self, fn):
        b = self.bodies.get(fn["id"])
        if b is None:
            b = Body(fn)
            self.bodies[fn["id"]] = b
        return b

    # ---- type helpers ----
    def struct_fields(self, tid):
        td = self.f.ty(tid)
        if td.get("k") == "adt" and td.get("local") and not td.get("enum") and "variants" in td and td["variants"]:
            return td["variants"][0][2]
        if td.get("k") == "tuple":
            return [[str(i), e, None, ""] for i, e in enumerate(td["elems"])]
        return None

    def leaf_paths(self, tid, depth=DEPTH):
        """Paths (<= depth) at which initial atoms are materialised for a value of this type."""
        fs = self.struct_fields(tid)
        if not fs or depth == 0:
            return [()]
        out = []
        for idx, (_n, ftid, _o, _v) in enumerate(fs):
            for p in self.leaf_paths(ftid, depth - 1):
                out.append((idx,) + p)
        return out or [()]

    def may_hold_ref(self, tid, _depth=0):
        td = self.f.ty(tid)
        k = td.get("k")
        if k in ("ref", "ptr"):
            return True
        if k in ("uint", "int", "bool", "char", "float", "str", "never", "fndef"):
            return False
        if k == "array" or k == "slice":
            return self.may_hold_ref(td["elem"], _depth + 1) if _depth < 4 else True
        if k == "tuple":
            return any(self.may_hold_ref(e, _depth + 1) for e in td["elems"]) if _depth < 4 else True
        if k == "adt":
            if td.get("local") and "variants" in td:
                if _depth >= 4:
                    return True
                return any(self.may_hold_ref(f[1], _depth + 1) for v in td["variants"] for f in v[2])
            s = td.get("s", "")
            return "&" in s or "Iter" in s or "iter::" in s or "Vec" in s or "*" in s
        return True

    # ---- summaries ----
    def summary(self, fn):
        fid = fn["id"]
        s = self.summaries.get(fid)
        if s is not None:
            return s
        if fid in self.in_progress:
            c = Summary()
            c.conservative = True
            return c
        self.in_progress.add(fid)
        try:
            s = FnAnalysis(self, fn).run()
        finally:
            self.in_progress.discard(fid)
        self.summaries[fid] = s
        return s


class FnAnalysis:
    def __init__(self, eng, fn):
        self.eng = eng
        self.fn = fn
        self.f = eng.f
        self.body = eng.body(fn)
        self.pol = eng.policy
        self.argc = fn["argc"]
        self.pts = {}          # local -> set of cells
        self.mpts = {}         # cell -> set of cells (refs stored in memory)
        self.disc = {}         # block -> labels of its branch discriminant
        self.param_is_ref = {}
        self.out_cells = {}
        self.summary = Summary()
        self.block_in = {}
        self.ret_labels = EMPTY
        self.ret_cells = {}
        self.written = set()
        self.must_ret = None
        self.events = {}       # sink events (kind, site) -> labels

    # ---- state helpers: state = {root: {path: labels}} ----
    @staticmethod
    def st_read(st, cell):
        root, path = cell
        d = st.get(root)
        if not d:
            return EMPTY
        out = EMPTY
        lp = len(path)
        for p, l in d.items():
            if len(p) <= lp:
                if is_prefix(p, path):
                    out |= l
            elif is_prefix(path, p):
                out |= l
        return out

    def st_write(self, st, cell, labels, strong):
        root, path = cell
        if isinstance(root, tuple) and root[0] == "P":
            self.written.add((root[1], path))
            if strong and "[]" not in path:
                st["__must__"] = st.get("__must__", EMPTY) | frozenset([(root[1], path)])
        d = st.get(root)
        d = dict(d) if d else {}
        if strong:
            lp = len(path)
            for p in [p for p in d if len(p) >= lp and p[:lp] == path]:
                del d[p]
            if labels:
                d[path] = labels
        else:
            if labels:
                d[path] = d.get(path, EMPTY) | labels
        st[root] = d

    @staticmethod
    def st_join(a, b):
        """join b into a; returns (new, changed)"""
        changed = False
        out = a
        ma, mb = a.get("__must__", EMPTY), b.get("__must__", EMPTY)
        mi = ma & mb
        if mi != ma:
            out = dict(a)
            out["__must__"] = mi
            changed = True
        for root, db in b.items():
            if root == "__must__":
                continue
            da = out.get(root)
            if da is db:
                continue
            if da is None:
                if out is a:
                    out = dict(a)
                out[root] = db
                changed = True
                continue
            nd = None
            for p, l in db.items():
                o = da.get(p)
                if o is None:
                    if nd is None:
                        nd = dict(da)
                    nd[p] = l
                elif not l <= o:
                    if nd is None:
                        nd = dict(da)
                    nd[p] = o | l
            if nd is not None:
                if out is a:
                    out = dict(a)
                out[root] = nd
                changed = True
        return out, changed

    # ---- places ----
    def cells_of(self, place, st):
        """Resolve a place to (cells, strong, index_labels).  index_labels: labels of Index locals."""
        local = place[0]
        cells = [(local, ())]
        strong = True
        idxl = EMPTY
        first = True
        for e in place[1:]:
            if e == "*":
                if first and len(cells) == 1 and cells[0] == (local, ()):
                    tg = self.pts.get(local)
                    cells = list(tg) if tg else [(("U", local), ())]
                else:
                    nc = []
                    for c in cells:
                        tg = self.mpts.get(c)
                        if tg:
                            nc.extend(tg)
                        else:
                            nc.append((("U", local), ()))
                    cells = nc
                if len(cells) != 1:
                    strong = False
            elif e[0] == "f":
                cells = [(r, trunc(p + (e[1],))) if len(p) < DEPTH else (r, p) for r, p in cells]
                if any(len(p) >= DEPTH for _r, p in cells):
                    pass
            elif e[0] in ("i", "c"):
                k_ = None
                if e[0] == "c" and not e[3]:
                    k_ = e[1]
                elif e[0] == "i":
                    dd = self.body.single_def(e[1])
                    if dd and dd[2] == "A" and dd[3][2][0] == "use" and dd[3][2][1][0] == "k" and dd[3][2][1][1] is not None:
                        k_ = int(dd[3][2][1][1])
                if k_ is not None and k_ < 8:
                    cells = [(r, trunc(p + ("#%d" % k_,))) if len(p) < DEPTH else (r, p) for r, p in cells]
                else:
                    cells = [(r, trunc(p + ("[]",))) if len(p) < DEPTH else (r, p) for r, p in cells]
                    strong = False
                if e[0] == "i":
                    idxl |= self.st_read(st, (e[1], ()))
            elif e[0] == "s":
                strong = False
            elif e[0] == "d":
                cells = [(r, trunc(p + ("v%d" % e[1],))) if len(p) < DEPTH else (r, p) for r, p in cells]
            first = False
        # a truncated path is a summary of several sub-objects
        for r, p in cells:
            if len(p) >= DEPTH:
                strong = strong and False if len(place) - 1 > DEPTH else strong
            if isinstance(r, tuple) and r[0] == "U":
                strong = False
        return cells, strong and len(cells) == 1, idxl

    def read_place(self, place, st):
        cells, _s, idxl = self.cells_of(place, st)
        out = EMPTY
        for c in cells:
            out |= self.st_read(st, c)
        return out, idxl

    def place_pts(self, place, st):
        """points-to set carried by the value stored at `place`."""
        if len(place) == 1:
            return self.pts.get(place[0], None)
        cells, _s, _i = self.cells_of(place, st)
        out = set()
        for c in cells:
            t = self.mpts.get(c)
            if t:
                out |= t
            # values copied out of a local that holds refs (e.g. Option<&T> payload)
            r = c[0]
            if isinstance(r, int) and r in self.pts:
                out |= self.pts[r]
        return out or None

    def operand(self, op, st):
        """-> (labels, pts or None)"""
        k = op[0]
        if k in ("cp", "mv"):
            l, idxl = self.read_place(op[1], st)
            if idxl:
                self.sink("index", None, idxl, "index operand")
            return l, self.place_pts(op[1], st)
        return EMPTY, None

    def add_pts(self, local, tg):
        if not tg:
            return False
        cur = self.pts.get(local)
        if cur is None:
            self.pts[local] = set(tg)
            return True
        n = len(cur)
        cur |= tg
        return len(cur) != n

    def sink(self, kind, site, labels, detail):
        if not labels:
            return
        key = (kind, site, detail)
        old = self.events.get(key, EMPTY)
        if not labels <= old:
            self.events[key] = old | labels

    # ---- main ----
    def init_state(self):
        st = {}
        fn = self.fn
        for i in range(1, self.argc + 1):
            tid = fn["locals"][i][0]
            td = self.f.ty(tid)
            if td.get("k") in ("ref", "ptr"):
                self.param_is_ref[i] = True
                root = ("P", i)
                self.pts[i] = set([(root, ())])
                d = {}
                for p in self.eng.leaf_paths(td["to"]):
                    d[p] = self.pol.param_atoms(self.eng, fn, i, p, False)
                st[root] = d
                # nested refs inside pointee (e.g. &[&T]) point to an opaque region of the same param
                if self.eng.may_hold_ref(td["to"]):
                    self.mpts[(root, ())] = set([(("PP", i), ())])
                    st[("PP", i)] = {(): self.pol.param_atoms(self.eng, fn, i, ("deep",), False)}
            else:
                self.param_is_ref[i] = False
                d = {}
                for p in self.eng.leaf_paths(tid):
                    d[p] = self.pol.param_atoms(self.eng, fn, i, p, True)
                st[i] = d
                if self.eng.may_hold_ref(tid):
                    root = ("P", i)
                    self.pts[i] = set([(root, ())])
                    st[root] = {(): self.pol.param_atoms(self.eng, fn, i, (), False)}
        return st

    def ctrl_labels(self, bi):
        if not self.pol.implicit:
            return EMPTY
        out = EMPTY
        for (a, _s) in self.body.cdep().get(bi, ()):
            out |= self.disc.get(a, EMPTY)
        return out

    def run(self):
        body = self.body
        self.eng.stats["fns"] += 1
        st0 = self.init_state()
        self.block_in = {0: st0}
        work = [0]
        inwork = set([0])
        order = {b: i for i, b in enumerate(body.rpo())}
        iters = 0
        pts_version = 0
        while work:
            work.sort(key=lambda b: order.get(b, 1 << 30), reverse=True)
            bi = work.pop()
            inwork.discard(bi)
            iters += 1
            if iters > 200 * max(1, len(body.reach)):
                self.summary.conservative = True
                break
            st = dict(self.block_in[bi])
            before_pts = self._pts_size()
            old_disc = self.disc.get(bi, EMPTY)
            self.exec_block(bi, st)
            changed_global = self._pts_size() != before_pts or self.disc.get(bi, EMPTY) != old_disc
            for s in body.succ[bi]:
                cur = self.block_in.get(s)
                if cur is None:
                    self.block_in[s] = st
                    ch = True
                else:
                    new, ch = self.st_join(cur, st)
                    if ch:
                        self.block_in[s] = new
                if ch and s not in inwork:
                    work.append(s)
                    inwork.add(s)
            if changed_global:
                # points-to sets / branch labels are flow-insensitive: revisit everything seen so far
                for b in self.block_in:
                    if b not in inwork:
                        work.append(b)
                        inwork.add(b)
        self.eng.stats["iters"] += iters
        self.eng.stats["blocks"] += len(body.reach)
        return self.finish()

    def _pts_size(self):
        return sum(len(v) for v in self.pts.values()) + sum(len(v) for v in self.mpts.values())

    def finish(self):
        s = self.summary
        s.ret = self.ret_labels
        s.ret_cells = self.ret_cells
        s.must = self.must_ret or frozenset()
        # outputs: final contents of param pointees at return blocks
        for (kind, site, detail), labels in self.events.items():
            s.sinks[(kind, site, detail)] = labels
        s.out = self.out_cells
        return s

    # ---- transfer ----
    def exec_block(self, bi, st):
        b = self.body.blocks[bi]
        ctrl = self.ctrl_labels(bi)
        fnfile = self.fn["file"]
        for s in b["s"]:
            if s[0] == "A":
                self.assign(s[1], s[2], st, ctrl, s[3])
            elif s[0] == "SD":
                cells, strong, _ = self.cells_of(s[1], st)
                for (r, pp) in cells:
                    self.st_write(st, (r, trunc(pp + ("D",))), ctrl, strong)
        t = b["t"]
        k = t[0]
        if k == "switch":
            l, _p = self.operand(t[1], st)
            self.disc[bi] = self.disc.get(bi, EMPTY) | l | (ctrl if self.pol.implicit else EMPTY)
            self.sink("branch", t[4], l, "switch")
        elif k == "assert":
            l, _p = self.operand(t[1], st)
            # operands of the assert message carry the index / divisor
            ol = EMPTY
            for o in t[4]:
                x, _ = self.operand(o, st)
                ol |= x
            if t[3] == "bounds":
                idx, _ = self.operand(t[4][1], st)
                self.sink("index", t[6], idx, "bounds-checked index")
            elif t[3] in ("div0", "rem0"):
                self.sink("div", t[6], ol, "division")
        elif k == "call":
            self.call(bi, t, st, ctrl)
        elif k == "ret":
            m_ = st.get("__must__", EMPTY)
            self.must_ret = m_ if self.must_ret is None else (self.must_ret & m_)
            self.ret_labels |= self.st_read(st, (0, ()))
            for p_, l_ in st.get(0, {}).items():
                self.ret_cells[p_] = self.ret_cells.get(p_, EMPTY) | l_
            # record pointee outputs
            for i in range(1, self.argc + 1):
                if self.param_is_ref.get(i) or ("P", i) in st:
                    d = st.get(("P", i), {})
                    for p, l in d.items():
                        init = self.pol.param_atoms(self.eng, self.fn, i, p, False)
                        if l != init or (i, p) in self.written:
                            key = (i, p)
                            self.out_cells[key] = self.out_cells.get(key, EMPTY) | l
            for (i, p) in self.written:
                if (i, p) not in self.out_cells and p not in st.get(("P", i), {}):
                    self.out_cells[(i, p)] = EMPTY
            if 0 in self.pts:
                for (r, _p) in self.pts[0]:
                    if isinstance(r, tuple) and r[0] in ("P", "PP"):
                        self.summary.ret_alias.add(r[1])

    def assign(self, place, rv, st, ctrl, line):
        k = rv[0]
        labels = EMPTY
        p_in = None
        if k == "use":
            if rv[1][0] in ("cp", "mv") and self.copy_tree(rv[1][1], place, st, ctrl):
                return
            labels, p_in = self.operand(rv[1], st)
        elif k == "bin":
            a, _ = self.operand(rv[2], st)
            b, _ = self.operand(rv[3], st)
            labels = a | b
            if rv[1] in ("Div", "Rem"):
                self.sink("div", line, labels, "division")
            if rv[1] in ("Eq", "Ne", "Lt", "Le", "Gt", "Ge", "Cmp"):
                self.sink("cmp", line, labels, "comparison producing a bool")
            if rv[1] == "Offset":
                _, p_in = self.operand(rv[2], st)
                self.sink("index", line, b, "pointer offset")
        elif k == "un":
            a, pa = self.operand(rv[2], st)
            if rv[1] == "PtrMetadata":
                labels = EMPTY
            else:
                labels = a
        elif k == "cast":
            labels, p_in = self.operand(rv[2], st)
        elif k in ("ref", "rawptr"):
            cells, _s, idxl = self.cells_of(rv[2], st)
            if idxl:
                self.sink("index", line, idxl, "indexed borrow")
            labels = EMPTY
            p_in = set(cells)
        elif k == "agg":
            p_in = set()
            for o in rv[2]:
                l, pp = self.operand(o, st)
                labels |= l
                if pp:
                    p_in |= pp
            if rv[1].get("k") in ("adt", "tuple") and len(place) == 1 and (
                    self._is_enum_local(place[0]) or
                    (rv[2] and self.eng.struct_fields(self.fn["locals"][place[0]][0]) is not None)):
                # field-wise strong write (enums: discriminant cell 'D' + variant fields)
                self.st_write(st, (place[0], ()), EMPTY, True)
                if self._is_enum_local(place[0]):
                    self.st_write(st, (place[0], ("D",)), ctrl, True)
                isenum = self._is_enum_local(place[0])
                for idx, o in enumerate(rv[2]):
                    l, pp = self.operand(o, st)
                    sub = place + ([["d", rv[1].get("variant", 0)]] if isenum else []) + [["f", idx]]
                    if o[0] in ("cp", "mv") and self.copy_tree(o[1], sub, st, ctrl):
                        continue
                    fpath = (("v%d" % rv[1].get("variant", 0), idx) if isenum else (idx,))
                    self.st_write(st, (place[0], fpath), l | ctrl, True)
                if p_in:
                    self.add_pts(place[0], p_in)
                return
        elif k == "discr":
            cells, _s, _i = self.cells_of(rv[1], st)
            for (r, pp) in cells:
                labels |= self.st_read(st, (r, trunc(pp + ("D",))))
        elif k == "repeat":
            labels, p_in = self.operand(rv[1], st)
        labels |= ctrl
        cells, strong, idxl = self.cells_of(place, st)
        if idxl:
            self.sink("index", line, idxl, "indexed store")
        for c in cells:
            self.st_write(st, c, labels, strong)
        if p_in:
            if len(place) == 1:
                self.add_pts(place[0], p_in)
            else:
                for c in cells:
                    cur = self.mpts.setdefault(c, set())
                    cur |= p_in
                # the root local now holds references as well
                if isinstance(place[0], int) and "*" not in place[1:]:
                    self.add_pts(place[0], p_in)

    def copy_tree(self, src, dst, st, ctrl):
        """Structure-preserving copy of an aggregate value; returns False if not applicable."""
        sc, _ss, sidx = self.cells_of(src, st)
        dc, dstrong, didx = self.cells_of(dst, st)
        if len(sc) != 1 or len(dc) != 1 or sidx or didx:
            return False
        (sr, sp), (dr, dp) = sc[0], dc[0]
        d = st.get(sr)
        if not d:
            return False
        # only worthwhile when the source has structure below sp
        sub = [(p_, l_) for p_, l_ in d.items() if len(p_) > len(sp) and p_[:len(sp)] == sp]
        if not sub:
            return False
        pre = EMPTY
        for p_, l_ in d.items():
            if len(p_) <= len(sp) and sp[:len(p_)] == p_:
                pre |= l_
        if dstrong:
            self.st_write(st, (dr, dp), EMPTY, True)
        if pre | ctrl:
            self.st_write(st, (dr, dp), pre | ctrl, False)
        for p_, l_ in sub:
            rel = p_[len(sp):]
            self.st_write(st, (dr, trunc(dp + rel)), l_, False)
        pin = self.place_pts(src, st)
        if pin:
            if len(dst) == 1:
                self.add_pts(dst[0], pin)
            else:
                self.mpts.setdefault((dr, dp), set()).update(pin)
                if "*" not in dst[1:]:
                    self.add_pts(dst[0], pin)
        return True

    def _is_enum_local(self, local):
        td = self.f.ty(self.fn["locals"][local][0])
        return bool(td.get("enum"))

    # ---- calls ----
    def call(self, bi, t, st, ctrl):
        callee = t[1]
        args = t[2]
        dest = t[3]
        line = t[5]
        name = callee["f"]
        argv = []
        for a in args:
            l, p = self.operand(a, st)
            argv.append((l, p, a))
        extra = self.pol.call_labels(self.eng, self.fn, bi, callee, argv) | ctrl
        target = None
        if callee["l"]:
            target = self.f.fns.get(callee["id"])
        if target is not None:
            self.call_local(target, argv, dest, st, extra, line, t)
        else:
            self.call_external(name, callee, argv, dest, st, extra, line, t)

    def pointee_labels(self, p, st, path=()):
        out = EMPTY
        if p:
            for (r, pp) in p:
                out |= self.st_read(st, (r, trunc(pp + path)))
        return out

    def write_dest(self, dest, labels, st, pts=None, keep=False):
        cells, strong, _ = self.cells_of(dest, st)
        if not keep:
            for c in cells:
                self.st_write(st, c, labels, strong)
        if pts:
            if len(dest) == 1:
                self.add_pts(dest[0], pts)
            else:
                for c in cells:
                    self.mpts.setdefault(c, set()).update(pts)
                if "*" not in dest[1:]:
                    self.add_pts(dest[0], pts)

    def subst(self, labels, argv, st):
        out = EMPTY
        for a in labels:
            if isinstance(a, tuple) and a and a[0] in ("v", "m") and len(a) == 3 and isinstance(a[1], int):
                i = a[1] - 1
                if i >= len(argv):
                    continue
                l, p, op = argv[i]
                path = a[2]
                if a[0] == "v":
                    if op is not None and op[0] in ("cp", "mv") and path and path != ("deep",):
                        cells, _s, _i = self.cells_of(op[1], st)
                        for (r, pp) in cells:
                            out |= self.st_read(st, (r, trunc(pp + path)))
                    else:
                        out |= l
                        if p:
                            out |= self.pointee_labels(p, st)
                else:
                    if path == ("deep",):
                        # contents reachable through nested references
                        seen = set()
                        frontier = set(p or ())
                        while frontier:
                            c = frontier.pop()
                            if c in seen:
                                continue
                            seen.add(c)
                            out |= self.st_read(st, c)
                            for c2, tg in self.mpts.items():
                                if c2[0] == c[0]:
                                    frontier |= tg
                    else:
                        out |= self.pointee_labels(p, st, path)
            else:
                out |= frozenset([a])
        return out

    def call_local(self, target, argv, dest, st, extra, line, t):
        summ = self.eng.summary(target)
        if summ.conservative:
            self.call_default(target["name"], argv, dest, st, extra, line)
            return
        # sinks inside the callee, in terms of our values
        for (kind, site, detail), labels in summ.sinks.items():
            if not self.pol.interesting_sink(kind):
                continue
            mine = self.subst(labels, argv, st)
            if mine:
                self.sink(kind, (line, target["name"], site), mine, detail)
        ret = self.subst(summ.ret, argv, st) | extra
        outs = []
        for (i, path), labels in summ.out.items():
            if i - 1 >= len(argv):
                continue
            outs.append((i, path, self.subst(labels, argv, st) | extra))
        outs.sort(key=lambda o: len(o[1]))   # prefixes first: a strong write of a prefix must not kill its sub-cells
        for (i, path, labels) in outs:
            l, p, op = argv[i - 1]
            if p:
                single = len(p) == 1
                for (r, pp) in p:
                    cell = (r, trunc(pp + path))
                    # kill the caller's labels only when the callee overwrites the cell on every path
                    strong = single and (i, path) in summ.must and "[]" not in cell[1] and len(pp + path) <= DEPTH \
                        and not (isinstance(r, tuple) and r[0] in ("U", "PP"))
                    self.st_write(st, cell, labels, strong)
        rp = set()
        for i in summ.ret_alias:
            if i - 1 < len(argv) and argv[i - 1][1]:
                rp |= argv[i - 1][1]
        if len(summ.ret_cells) > 1 or (summ.ret_cells and () not in summ.ret_cells):
            cells, strong, _ = self.cells_of(dest, st)
            if strong:
                self.st_write(st, cells[0], EMPTY, True)
            for path, labels in summ.ret_cells.items():
                l = self.subst(labels, argv, st) | extra
                for (r, pp) in cells:
                    self.st_write(st, (r, trunc(pp + path)), l, strong and len(pp + path) <= DEPTH)
            if extra:
                for (r, pp) in cells:
                    self.st_write(st, (r, trunc(pp + ("D",))), extra, False)
            self.write_dest(dest, EMPTY, st, rp or None, keep=True)
        else:
            self.write_dest(dest, ret, st, rp or None)

    def call_default(self, name, argv, dest, st, extra, line):
        allv = extra
        allp = set()
        for (l, p, op) in argv:
            allv |= l
            allv |= self.pointee_labels(p, st)
            if p:
                allp |= p
        for (l, p, op) in argv:
            if p:
                for c in p:
                    self.st_write(st, c, allv, False)
        self.write_dest(dest, allv, st, allp or None)

    def call_external(self, name, callee, argv, dest, st, extra, line, t):
        self._call_external_core(name, callee, argv, dest, st, extra, line, t)
        # closures handed to a std combinator (Option::filter / map / and_then, bool::then, Iterator::all / any / map,
        # sort_by ...) are called by it: their sinks, their writes through captured references and what their result
        # depends on (check facts made inside them included) are accounted for at this call site
        for i, (l, p, op) in enumerate(argv):
            cf = self._closure_of(op)
            if cf is None:
                continue
            others = [a for j, a in enumerate(argv) if j != i]
            self._apply_closure(cf, argv[i], others, dest, st, extra, line)

    def _closure_of(self, op):
        if op is None or op[0] not in ("cp", "mv") or len(op[1]) != 1:
            return None
        td = self.f.ty(self.fn["locals"][op[1][0]][0])
        for _ in range(3):
            if td.get("k") in ("ref", "ptr"):
                td = self.f.ty(td["to"])
        if td.get("k") == "closure":
            return self.f.fns.get(td.get("path"))
        return None

    def _apply_closure(self, target, cl_arg, others, dest, st, extra, line):
        summ = self.eng.summary(target)
        if summ.conservative:
            return
        # argument vector of the closure body: _1 = environment (by value or by reference), _2.. = what the combinator
        # passes: unknown, approximated by everything reachable from the combinator's other arguments
        ol, op_ = EMPTY, set()
        oop = None
        for (l, p, o) in others:
            ol |= l | self.pointee_labels(p, st)
            if p:
                op_ |= p
            if oop is None:
                oop = o
        l0, p0, o0 = cl_arg
        env_td = self.f.ty(target["locals"][1][0]) if target["argc"] >= 1 else {}
        if env_td.get("k") in ("ref", "ptr") and o0[0] in ("cp", "mv") and len(o0[1]) == 1 \
                and self.f.ty(self.fn["locals"][o0[1][0]][0]).get("k") == "closure":
            env = (l0, set([(o0[1][0], ())]), o0)        # by-value closure local passed where the body takes &env
        else:
            env = (l0, p0, o0)
        cargv = [env] + [(ol, set(op_) or None, oop)] * max(0, target["argc"] - 1)
        for (kind, site, detail), labels in summ.sinks.items():
            if not self.pol.interesting_sink(kind):
                continue
            mine = self.subst(labels, cargv, st)
            if mine:
                # the closure body counts as part of this function: a sink reached through a call made inside it keeps
                # that callee as its first hop (reviewed `via` entries name the callee, not the closure)
                self.sink(kind, site if isinstance(site, tuple) else (line, target["name"], site), mine, detail)
        for (i, path), labels in sorted(summ.out.items(), key=lambda kv: len(kv[0][1])):
            if i - 1 >= len(cargv):
                continue
            lab = self.subst(labels, cargv, st) | extra
            l, p, o = cargv[i - 1]
            if p:
                for (r, pp) in p:
                    self.st_write(st, (r, trunc(pp + path)), lab, False)
        ret = summ.ret
        for v in summ.ret_cells.values():
            ret = ret | v
        rl = self.subst(ret, cargv, st)
        if rl and dest:
            cells, _strong, _ = self.cells_of(dest, st)
            for (r, pp) in cells:
                self.st_write(st, (r, pp), rl | extra, False)
                self.st_write(st, (r, trunc(pp + ("D",))), rl | extra, False)

    def _call_external_core(self, name, callee, argv, dest, st, extra, line, t):
        kind = ext_kind(name)
        vals = EMPTY
        for (l, p, op) in argv:
            vals |= l
        if kind == "panic":
            return
        if kind == "len":
            self.write_dest(dest, extra, st)
            return
        if kind in ("view", "view0", "view0opt"):
            l0, p0, _ = argv[0]
            if kind == "view" and len(argv) > 1:
                il = argv[1][0]
                self.sink("index", line, il, "slice index/range")
            newp = None
            if p0:
                if kind == "view" and len(argv) > 1 and self._is_scalar_index(argv[1][2]):
                    newp = set((r, trunc(pp + ("[]",))) if len(pp) < DEPTH else (r, pp) for r, pp in p0)
                else:
                    newp = set(p0)
            self.write_dest(dest, l0 | extra, st, newp)
            return
        if kind == "copy":
            l0, p0, _ = argv[0]
            src = EMPTY
            for (l, p, op) in argv[1:]:
                src |= l | self.pointee_labels(p, st)
            if p0:
                for c in p0:
                    self.st_write(st, c, src | extra, False)
            self.write_dest(dest, extra, st)
            return
        if kind == "push":
            l0, p0, _ = argv[0]
            src = EMPTY
            pp_ = set()
            for (l, p, op) in argv[1:]:
                src |= l
                if p:
                    pp_ |= p
            if p0:
                for c in p0:
                    self.st_write(st, (c[0], trunc(c[1] + ("[]",))), src | extra, False)
                    if pp_:
                        self.mpts.setdefault(c, set()).update(pp_)
            self.write_dest(dest, extra, st)
            return
        if kind == "iter":
            allp = set()
            for (l, p, op) in argv:
                if p:
                    allp |= p
            self.write_dest(dest, vals | extra, st, allp or None)
            return
        if kind == "next":
            l0, p0, _ = argv[0]
            # iterator state lives in the pointee of arg0
            itl = self.pointee_labels(p0, st)
            inner = set()
            if p0:
                for c in p0:
                    r = c[0]
                    if isinstance(r, int) and r in self.pts:
                        inner |= self.pts[r]
                    if c in self.mpts:
                        inner |= self.mpts[c]
            inner2 = set()
            for (r, pp) in inner:
                if isinstance(r, int) and self._is_iter_local(r):
                    inner2 |= self.pts.get(r, set())
                else:
                    inner2.add((r, pp))
            elemp = set((r, trunc(pp + ("[]",))) if (len(pp) < DEPTH and (not pp or pp[-1] != "[]")) else (r, pp) for r, pp in inner2)
            if self._slice_iterator(argv[0][2]):
                # an iterator over slices / arrays (Iter, IterMut, Chunks*, and Zip / Enumerate / Rev of those): whether it
                # yields another item depends on lengths and positions only (public); the item itself carries the data
                cells, strong, _ = self.cells_of(dest, st)
                for (r, pp) in cells:
                    if strong:
                        self.st_write(st, (r, pp), EMPTY, True)
                    self.st_write(st, (r, trunc(pp + ("D",))), extra, strong)
                    self.st_write(st, (r, trunc(pp + ("v1", 0))), itl | l0 | extra, strong)
                self.write_dest(dest, EMPTY, st, elemp or None, keep=True)
                return
            self.write_dest(dest, itl | l0 | extra, st, elemp or None)
            return
        if kind == "rng":
            if len(argv) > 1 and argv[1][1]:
                for c in argv[1][1]:
                    self.st_write(st, c, frozenset([("rng",)]) | extra, False)
            self.write_dest(dest, extra, st)
            return
        if kind == "unwrap" and "FromResidual" in name:
            # the residual of an Option carries no data: the result is None
            cells, strong, _ = self.cells_of(dest, st)
            for (r, pp) in cells:
                if strong:
                    self.st_write(st, (r, pp), EMPTY, True)
                self.st_write(st, (r, trunc(pp + ("D",))), extra, strong)
            return
        if kind == "unwrap":
            l0, p0, op0 = argv[0]
            dl = l0
            pay = l0
            if op0[0] in ("cp", "mv"):
                cells, _s, _i = self.cells_of(op0[1], st)
                dl = EMPTY
                pay = EMPTY
                for (r, pp) in cells:
                    dl |= self.st_read(st, (r, trunc(pp + ("D",))))
                    d = st.get(r, {})
                    for p_, l_ in d.items():
                        if p_[:len(pp)] == pp and p_[len(pp):len(pp) + 1] != ("D",):
                            pay |= l_
                        elif len(p_) < len(pp) and pp[:len(p_)] == p_:
                            pay |= l_
                            dl |= l_
            self.sink("discr", line, dl, "unwrap/branch on Option/Result")
            if name.endswith("::unwrap") or name.endswith("::expect"):
                self.write_dest(dest, pay | extra, st, p0)
            else:
                # Try::branch / from_residual / ok: result is again an enum
                cells, strong, _ = self.cells_of(dest, st)
                for (r, pp) in cells:
                    if strong:
                        self.st_write(st, (r, pp), EMPTY, True)
                    self.st_write(st, (r, trunc(pp + ("D",))), dl | extra, strong)
                    self.st_write(st, (r, trunc(pp + ("v0", 0))), pay | extra, strong)
                self.write_dest(dest, EMPTY, st, p0, keep=True)
            return
        if kind == "then_some" and len(argv) == 2:
            # bool::then_some(c, v): discriminant from c, payload from v (field-insensitive), like `if c { Some(v) } else { None }`
            cells, strong, _ = self.cells_of(dest, st)
            pay = argv[1][0] | self.pointee_labels(argv[1][1], st)
            for (r, pp) in cells:
                if strong:
                    self.st_write(st, (r, pp), EMPTY, True)
                self.st_write(st, (r, trunc(pp + ("D",))), argv[0][0] | extra, strong)
                self.st_write(st, (r, trunc(pp + ("v1", 0))), pay | extra, strong)
            if argv[1][1]:
                self.write_dest(dest, EMPTY, st, argv[1][1], keep=True)
            return
        if kind == "cmp":
            allv = vals
            for (l, p, op) in argv:
                allv |= self.pointee_labels(p, st)
            self.sink("valueread", line, allv, name)
            self.write_dest(dest, allv | extra, st)
            return
        if kind == "fmt":
            self.write_dest(dest, extra, st)
            return
        if kind == "pure":
            allv = vals
            allp = set()
            for (l, p, op) in argv:
                allv |= self.pointee_labels(p, st)
                if p:
                    allp |= p
            if name.endswith("::leading_zeros") or name.endswith("::trailing_zeros"):
                self.sink("valueread", line, allv, name)
            # out-parameters of intrinsics (e.g. _addcarry_u64(c, a, b, &mut out))
            for (l, p, op) in argv:
                if p and self._is_mut_ref(op):
                    for c in p:
                        self.st_write(st, c, allv | extra, False)
            self.write_dest(dest, allv | extra, st, allp if self.eng.may_hold_ref(self.fn["locals"][dest[0]][0]) else None)
            return
        self.eng.unmodelled[name] = self.eng.unmodelled.get(name, 0) + 1
        self.call_default(name, argv, dest, st, extra, line)

    def _slice_iterator(self, op):
        """is the `&mut iterator` operand an iterator over slices / arrays only (no Range / counter inside)?"""
        if op is None or op[0] not in ("cp", "mv") or len(op[1]) != 1:
            return False
        td = self.f.ty(self.fn["locals"][op[1][0]][0])
        if td.get("k") in ("ref", "ptr"):
            td = self.f.ty(td["to"])
        s_ = td.get("s", "")
        if "Range" in s_ or "StepBy" in s_ or "Map<" in s_ or "Filter" in s_ or "TakeWhile" in s_ or "SkipWhile" in s_:
            return False
        return "slice::iter::" in s_ or "slice::Iter" in s_ or "Chunks" in s_ or "array::iter" in s_

    def _is_mut_ref(self, op):
        if op[0] in ("cp", "mv") and len(op[1]) == 1:
            td = self.f.ty(self.fn["locals"][op[1][0]][0])
            return td.get("k") in ("ref", "ptr") and bool(td.get("mut"))
        return False

    def _is_scalar_index(self, op):
        if op[0] in ("cp", "mv"):
            pl = op[1]
            if len(pl) == 1:
                td = self.f.ty(self.fn["locals"][pl[0]][0])
                return td.get("k") in ("uint", "int")
        if op[0] == "k":
            return True
        return False

    def _is_iter_local(self, r):
        td = self.f.ty(self.fn["locals"][r][0])
        s = td.get("s", "")
        return "Iter" in s or "iter::" in s or "Range" in s
