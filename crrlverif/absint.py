"""Def-chasing interval evaluation for index / length obligations (totality).

At mir-opt-level=0 nearly every temporary has exactly one definition, so the
value of an index or length expression can be bounded by walking definitions
backwards: constants, arithmetic on bounded values, masks (`x & 15`), casts,
loop variables of `Range` iterators with bounded ends, lengths of arrays and of
slices guarded by dominating comparisons.  Anything else is 'unknown' and the
obligation is left to a reviewed table entry (fail-closed)."""
from .mir import Body, operand_local, const_int

INF = float("inf")
TOP = (0, INF)


def _add(a, b):
    return (a[0] + b[0], a[1] + b[1])


class FnEval:
    def __init__(self, facts, body, ctx=None):
        self.f = facts
        self.ctx = ctx      # optional: object with succ_len(fn_id) -> {param: (lo, hi)}
        self.b = body
        self.fn = body.fn
        self.memo = {}
        self.busy = set()
        self._guards = None
        self.at = None
        self.ptr_max = (1 << facts.ptr_bits) - 1
        # caller-derived facts for the parameters of private functions (join over all call sites):
        self.param_val = {}     # param local -> (lo, hi) of a by-value integer
        self.param_len = {}     # param local -> (lo, hi) of the length of the slice it references

    def at_block(self, bi):
        self.at = bi
        return self

    # ---- integer intervals -------------------------------------------------
    def ty(self, local):
        return self.f.ty(self.b.local_ty(local))

    def ty_range(self, td):
        k = td.get("k")
        if k == "uint":
            return (0, (1 << td["bits"]) - 1)
        if k == "int":
            return (-(1 << (td["bits"] - 1)), (1 << (td["bits"] - 1)) - 1)
        if k == "bool":
            return (0, 1)
        return (-INF, INF)

    def op_ival(self, op, at=None, depth=0):
        c = const_int(op)
        if c is not None:
            td = self.f.ty(op[2])
            if td.get("k") == "int":
                bits = td["bits"]
                if c >= 1 << (bits - 1):
                    c -= 1 << bits
            return (c, c)
        if op[0] in ("cp", "mv"):
            pl = op[1]
            if len(pl) == 1:
                return self.ival(pl[0], at, depth + 1)
            # field of a tuple returned by a call etc.: type range
            return None
        return None

    def ival(self, local, at=None, depth=0):
        if at is None:
            at = self.at
        key = (local, self.at)
        if key in self.memo:
            return self.memo[key]
        if key in self.busy or depth > 40:
            return None
        self.busy.add(key)
        try:
            r = self._ival(local, at, depth)
        finally:
            self.busy.discard(key)
        td = self.ty(local)
        tr = self.ty_range(td)
        if r is None:
            r = tr if tr[1] != INF else None
        elif tr[1] != INF:
            r = (max(r[0], tr[0]), min(r[1], tr[1])) if r[0] <= tr[1] and r[1] >= tr[0] else tr
        self.memo[key] = r
        return r

    def _ival(self, local, at, depth):
        b = self.b
        defs = b.defs().get(local, [])
        if local != 0 and local <= self.fn["argc"]:
            return self.param_val.get(local) if not defs else None
        if not defs:
            return None
        whole = [d for d in defs if d[2] in ("A", "call")]
        if len(whole) != len(defs):
            return None
        if len(defs) > 1:
            mono = self._monotone_counter(local, defs, depth)
            if mono is not None:
                return mono
            # join over all definitions (mutable counters: only if every def is bounded without self-reference)
            out = None
            for d in defs:
                r = self._def_ival(local, d, depth)
                if r is None:
                    return None
                out = r if out is None else (min(out[0], r[0]), max(out[1], r[1]))
            return out
        return self._def_ival(local, defs[0], depth)

    def _step_of(self, local, d):
        """('add'|'sub', k, operand reading the counter) when definition d is `local = local +/- k` (k constant >= 0),
        possibly through one temporary."""
        if d[2] != "A":
            return None
        rv = d[3][2]
        if rv[0] == "use" and rv[1][0] in ("cp", "mv") and len(rv[1][1]) == 1:
            dd = self.b.single_def(rv[1][1][0])
            if not dd or dd[2] != "A":
                return None
            rv = dd[3][2]
        if rv[0] != "bin" or rv[1] not in ("Add", "AddUnchecked", "Sub", "SubUnchecked"):
            return None
        k = const_int(rv[3])
        src = rv[2]
        if k is None and rv[1].startswith("Add"):
            k = const_int(rv[2])
            src = rv[3]
        if k is None or k < 0:
            return None
        l = operand_local(src)
        for _ in range(6):
            if l is None:
                return None
            if l == local:
                return ("add" if rv[1].startswith("Add") else "sub", k, src)
            dd = self.b.single_def(l)
            if dd and dd[2] == "A" and dd[3][2][0] == "use":
                l = operand_local(dd[3][2][1])
            else:
                return None
        return None

    def _guard_on_counter(self, local, d):
        """Bounds on the value of `local` as read by its own step definition d, from a branch edge `local <cmp> const`
        that dominates the step with no other definition of the local in between."""
        bi, si = d[0], d[1]
        for x in self.b.defs().get(local, []):
            if x[0] == bi and x is not d and isinstance(x[1], int) and isinstance(si, int) and x[1] < si:
                return None
        res = None
        for (gk, greads, lo, hi, efrom, eto) in self.value_guards():
            if gk != ("l", local):
                continue
            if not (eto == bi or self.b.dominates(eto, bi)):
                continue
            preds = [p for p in self.b.pred[eto] if p in self.b.reachset]
            if any(p != efrom for p in preds):
                continue
            # no definition of the local on a path eto -> bi (other than in bi itself, checked above)
            ok = True
            if eto != bi:
                seen = set()
                st = [eto]
                while st and ok:
                    x = st.pop()
                    if x in seen or x == bi:
                        continue
                    seen.add(x)
                    if any(dd[0] == x for dd in self.b.defs().get(local, [])):
                        ok = False
                    st.extend(y for y in self.b.succ[x] if self.b.dominates(eto, y))
            # the guard's own read of the local must be in efrom (no definition between the comparison and the edge)
            if any(dd[0] == efrom and dd is not d for dd in self.b.defs().get(local, [])):
                # a definition in the comparing block: only fine when it precedes the comparison; be conservative
                ok = False
            if ok:
                res = (lo, hi) if res is None else (max(res[0], lo), min(res[1], hi))
        return res

    def _monotone_counter(self, local, defs, depth):
        """`let mut t = C; while t > 0 { t -= 1; .. }` / `let mut i = 0; while i < n { ..; i += 1 }`: every definition is
        an initialisation that does not read the counter or a step in one direction.  The counter stays between its
        initial values and what the guard dominating each step lets through."""
        inits, steps = [], []
        for d in defs:
            st = self._step_of(local, d)
            if st is not None:
                steps.append((d, st))
            else:
                inits.append(d)
        if not steps or not inits or len(set(st[0] for _d, st in steps)) != 1:
            return None
        tr = self.ty_range(self.ty(local))
        if tr[1] == INF:
            return None
        lo = hi = None
        for d in inits:
            r = self._def_ival(local, d, depth + 1)
            if r is None:
                return None
            lo = r[0] if lo is None else min(lo, r[0])
            hi = r[1] if hi is None else max(hi, r[1])
        direction = steps[0][1][0]
        for d, (kind, k, src) in steps:
            save = self.at
            self.at = d[0]
            try:
                ov = self.op_ival(src, d[0], depth + 1)    # the counter as read by the step, refined by dominating guards
            finally:
                self.at = save
            if ov is None:
                ov = tr
            g = self._guard_on_counter(local, d)
            if g is not None:
                ov = (max(ov[0], g[0]), min(ov[1], g[1]))
            if direction == "sub":
                if ov[0] - k < tr[0]:
                    return None          # may wrap below zero
                lo = min(lo, ov[0] - k)
            else:
                if ov[1] + k > tr[1] or ov[1] >= tr[1] or ov[1] >= (1 << 62):
                    return None          # no upper guard (the type's maximum is not a bound)
                hi = max(hi, ov[1] + k)
        return (lo, hi)

    def _def_ival(self, local, d, depth):
        r = self._def_ival0(local, d, depth)
        if d[2] == "A":
            g = self.refine_def(d)
            if g is not None:
                if r is None:
                    tr = self.ty_range(self.ty(local))
                    r = (max(tr[0], g[0]), min(tr[1], g[1]) if tr[1] != INF else g[1])
                else:
                    r = (max(r[0], g[0]), min(r[1], g[1]))
        return r

    def value_guards(self):
        """[(expr key, reads, lo, hi, efrom, eto)] for switch conditions `expr <cmp> const`."""
        if getattr(self, "_vguards", None) is not None:
            return self._vguards
        out = []
        b = self.b
        for bi in b.reach:
            t = b.blocks[bi]["t"]
            if t[0] != "switch":
                continue
            l = operand_local(t[1])
            if l is None:
                continue
            d = b.single_def(l)
            if not d or d[2] != "A":
                continue
            rv = d[3][2]
            if rv[0] != "bin" or rv[1] not in ("Eq", "Ne", "Lt", "Le", "Gt", "Ge"):
                continue
            for x, y, flip in ((rv[2], rv[3], False), (rv[3], rv[2], True)):
                c = const_int(y)
                if c is None or const_int(x) is not None:
                    continue
                op = rv[1]
                if flip:
                    op = {"Eq": "Eq", "Ne": "Ne", "Lt": "Gt", "Le": "Ge", "Gt": "Lt", "Ge": "Le"}[op]
                reads = []
                key = self.expr_key(x, reads)
                false_t = [z[1] for z in t[2] if int(z[0]) == 0]
                iv = self._cond_interval(op, c, True)
                if iv:
                    out.append((key, reads, iv[0], iv[1], bi, t[3]))
                iv = self._cond_interval(op, c, False)
                if iv:
                    for ft in false_t:
                        out.append((key, reads, iv[0], iv[1], bi, ft))
            if const_int(rv[2]) is None and const_int(rv[3]) is None and rv[1] in ("Lt", "Le", "Gt", "Ge"):
                # `i < num` with num = min(len, 16): the bound's interval bounds the other side on the matching edge
                false_t0 = [z[1] for z in t[2] if int(z[0]) == 0]
                for x, y, op in ((rv[2], rv[3], rv[1]),
                                 (rv[3], rv[2], {"Lt": "Gt", "Le": "Ge", "Gt": "Lt", "Ge": "Le"}[rv[1]])):
                    yv = self.op_ival(y)
                    if yv is None:
                        continue
                    reads = []
                    key = self.expr_key(x, reads)
                    if op in ("Lt", "Le") and yv[1] != INF and yv[1] < (1 << 62):
                        out.append((key, reads, 0, yv[1] - (1 if op == "Lt" else 0), bi, t[3]))       # true edge: x < y <= hi(y)
                    if op in ("Gt", "Ge") and yv[1] != INF and yv[1] < (1 << 62):
                        for ft in false_t0:
                            out.append((key, reads, 0, yv[1] - (1 if op == "Ge" else 0), bi, ft))     # false edge of x >= y
                # relational test between two values: `i < n` says n - i >= 1 on the true edge (and i - n >= 0 on the
                # false edge); recorded as a fact about the difference expression, which is what the code computes next
                reads = []
                kx, ky = self.expr_key(rv[2], reads), self.expr_key(rv[3], reads)
                false_t = [z[1] for z in t[2] if int(z[0]) == 0]
                op = rv[1]
                # (difference key, lower bound) on the true edge / on the false edge
                tr = {"Lt": (("Sub", ky, kx), 1), "Le": (("Sub", ky, kx), 0), "Gt": (("Sub", kx, ky), 1), "Ge": (("Sub", kx, ky), 0)}[op]
                fa = {"Lt": (("Sub", kx, ky), 0), "Le": (("Sub", kx, ky), 1), "Gt": (("Sub", ky, kx), 0), "Ge": (("Sub", ky, kx), 1)}[op]
                out.append((tr[0], reads, tr[1], INF, bi, t[3]))
                for ft in false_t:
                    out.append((fa[0], reads, fa[1], INF, bi, ft))
        self._vguards = out
        return out

    def refine_def(self, d):
        """Bounds on the value assigned by definition d implied by the branch edge leading to its block."""
        bi = d[0]
        rv = d[3][2]
        reads = []
        if rv[0] == "use" and rv[1][0] in ("cp", "mv"):
            key = self._opk(rv[1], reads, 0, bi)       # the read happens in this definition's block
        elif rv[0] == "bin":
            key = (rv[1], self._opk(rv[2], reads, 0, bi), self._opk(rv[3], reads, 0, bi))
        elif rv[0] == "cast":
            key = ("cast", rv[3], self._opk(rv[2], reads, 0, bi))
        else:
            return None
        res = None
        for (gk, greads, lo, hi, efrom, eto) in self.value_guards():
            if gk != key:
                continue
            if not (eto == bi or self.b.dominates(eto, bi)):
                continue
            preds = [p for p in self.b.pred[eto] if p in self.b.reachset]
            if any(p != efrom for p in preds):
                continue
            # mutable locals read by both expressions must not be redefined in the blocks involved
            ok = True
            blocks = set([efrom, eto, bi])
            for (l, rb) in list(reads) + list(greads):
                for dd in self.b.defs().get(l, []):
                    if dd[0] in blocks:
                        ok = False
                if rb is not None and rb not in blocks:
                    ok = False
            if eto != bi:
                # the guarded value may only be reused further down when it reads nothing that can change: parameters
                # that are never assigned in this body are fine, any other multiply-defined local is not
                mut = [(l, rb) for (l, rb) in reads + greads if self.b.defs().get(l)]
                if mut and not self.reads_consistent(mut):
                    ok = False
            if not ok:
                continue
            res = (lo, hi) if res is None else (max(res[0], lo), min(res[1], hi))
        return res

    def _op_at(self, o, d, depth):
        """Interval of operand o as read by definition d.  For a multiply-defined local with a definition earlier in the
        same block, only that definition reaches the read (`t -= 1; .. k[t >> 3]`)."""
        if o[0] in ("cp", "mv") and len(o[1]) == 1 and isinstance(d[1], int):
            l = o[1][0]
            ds = self.b.defs().get(l, [])
            if len(ds) > 1:
                prev = [x for x in ds if x[0] == d[0] and isinstance(x[1], int) and x[1] < d[1]]
                if prev:
                    dd = max(prev, key=lambda x: x[1])
                    st = self._step_of(l, dd)
                    if st is not None and dd[2] == "A":
                        base = self.ival(l, d[0], depth + 1)
                        g = self._guard_on_counter(l, dd)
                        if base is not None:
                            if g is not None:
                                base = (max(base[0], g[0]), min(base[1], g[1]))
                            r = (base[0] - st[1], base[1] - st[1]) if st[0] == "sub" else (base[0] + st[1], base[1] + st[1])
                            tr = self.ty_range(self.ty(l))
                            if tr[1] != INF and r[0] >= tr[0] and r[1] <= tr[1]:
                                return r
                    elif dd[2] in ("A", "call"):
                        r = self._def_ival(l, dd, depth + 1)
                        if r is not None:
                            return r
                else:
                    # no definition earlier in this block: when the block's only predecessor ends in the call that
                    # defines the local (`let mut ptr = self.buf_offset(); self.buf[ptr] = ..`), that call reaches the read
                    preds = [p for p in self.b.pred[d[0]] if p in self.b.reachset]
                    if len(preds) == 1:
                        cd = [x for x in ds if x[2] == "call" and x[0] == preds[0]]
                        if cd and not [x for x in ds if x[0] == d[0] and isinstance(x[1], int) and x[1] < d[1]]:
                            r = self._def_ival(l, cd[0], depth + 1)
                            if r is not None:
                                return r
        return self.op_ival(o, None, depth)

    def _def_ival0(self, local, d, depth):
        if d[2] == "call":
            t = d[3]
            name = t[1]["f"]
            args = t[2]
            if name.endswith("::len") and ("slice" in name or "Vec" in name or "str" in name):
                return self.slice_len(args[0], self.at)
            if (name.startswith("core::cmp::min") or (name.endswith("::min") and "cmp" in name)) and len(args) == 2:
                a, c = self.op_ival(args[0]), self.op_ival(args[1])
                if a is None and c is None:
                    return None
                a = a or (0, INF)
                c = c or (0, INF)
                return (min(a[0], c[0]), min(a[1], c[1]))
            if "wrapping_sub" in name or "wrapping_add" in name or "wrapping_neg" in name:
                return None
            if t[1].get("l") and self.ctx is not None and depth < 6:
                # an integer-returning crate-local helper (`fn buf_offset(&self) -> usize { (self.ctr % 64) as usize }`): the
                # interval of its return value, whatever its arguments
                return self.ctx.ret_ival(t[1].get("id"))
            return None
        rv = d[3][2]
        k = rv[0]
        if k == "use":
            o = rv[1]
            r = self._op_at(o, d, depth)
            if r is not None:
                return r
            # payload of an iterator's next(): `(_opt as Some).0`
            if o[0] in ("cp", "mv") and len(o[1]) == 3 and o[1][1][0] == "d" and o[1][2][0] == "f":
                r = self.iter_payload(o[1][0])
                if r is not None:
                    return r
            if o[0] in ("cp", "mv") and len(o[1]) > 1:
                return self.yielded_index(local, self.at)
            return None
        if k == "cast":
            r = self._op_at(rv[2], d, depth)
            if r is None:
                return None
            td = self.f.ty(rv[3])
            tr = self.ty_range(td)
            if r[0] >= tr[0] and r[1] <= tr[1]:
                return r
            return None
        if k == "bin":
            op = rv[1]
            a = self._op_at(rv[2], d, depth)
            c = self._op_at(rv[3], d, depth)
            if op == "BitAnd":
                # x & c is within [0, c] for non-negative c
                hi = None
                for x in (a, c):
                    if x is not None and x[0] >= 0 and x[1] != INF:
                        hi = x[1] if hi is None else min(hi, x[1])
                if hi is not None:
                    return (0, hi)
                return None
            if op == "Rem" and c is not None and c[0] > 0 and c[1] != INF:
                if a is None or a[0] >= 0:
                    return (0, c[1] - 1)
            if a is None or c is None:
                if op == "Shr" and c is not None and c[0] == c[1] and c[0] >= 0:
                    td = self.ty(local)
                    if td.get("k") == "uint":
                        return (0, ((1 << td["bits"]) - 1) >> int(c[0]))
                return None
            if op in ("Add", "AddUnchecked"):
                return _add(a, c)
            if op in ("Sub", "SubUnchecked"):
                return (a[0] - c[1], a[1] - c[0])
            if op in ("Mul", "MulUnchecked"):
                if a[0] >= 0 and c[0] >= 0:
                    return (a[0] * c[0], a[1] * c[1])
                return None
            if op in ("Shr", "ShrUnchecked") and c[0] == c[1] and a[0] >= 0 and c[0] >= 0:
                return (int(a[0]) >> int(c[0]), (int(a[1]) >> int(c[0])) if a[1] != INF else INF)
            if op in ("Shl", "ShlUnchecked") and c[0] == c[1] and a[0] >= 0 and 0 <= c[0] < 64:
                return (int(a[0]) << int(c[0]), (int(a[1]) << int(c[0])) if a[1] != INF else INF)
            if op == "Div" and c[0] > 0 and a[0] >= 0:
                return (a[0] // c[1] if c[1] != INF else 0, a[1] // c[0] if a[1] != INF else INF)
            if op == "BitOr" and a[0] >= 0 and c[0] >= 0 and a[1] != INF and c[1] != INF:
                m = max(int(a[1]), int(c[1]))
                return (0, (1 << m.bit_length()) - 1)
            return None
        if k == "un" and rv[1] == "PtrMetadata":
            return self.slice_len(rv[2], self.at)
        return None

    def iter_payload(self, optlocal):
        """Bounds of the value yielded by `next()` when optlocal = next(&mut iter)."""
        d = self.b.single_def(optlocal)
        if not d or d[2] != "call":
            return None
        t = d[3]
        name = t[1]["f"]
        if not name.endswith("::next"):
            return None
        a0 = t[2][0]
        it = None
        # &mut iter
        l = operand_local(a0)
        if l is None:
            return None
        it = self.ref_target_local(l)
        if it is None:
            return None
        return self.iter_range(it, 0)

    def ref_target_local(self, l, depth=0):
        """Local that reference-typed local `l` points to (through reborrows / copies)."""
        if depth > 10:
            return None
        dd = self.b.single_def(l)
        if not dd or dd[2] != "A":
            return None
        rv = dd[3][2]
        if rv[0] == "ref":
            pl = rv[2]
            if len(pl) == 1:
                return pl[0]
            if len(pl) == 2 and pl[1] == "*":
                return self.ref_target_local(pl[0], depth + 1)
            return None
        if rv[0] == "use":
            l2 = operand_local(rv[1])
            if l2 is not None:
                return self.ref_target_local(l2, depth + 1)
        return None

    def iter_range(self, itlocal, depth):
        """Value interval produced by an iterator local built from Range / rev / into_iter / step_by."""
        if depth > 8:
            return None
        defs = self.b.defs().get(itlocal, [])
        defs = [d for d in defs if d[2] in ("A", "call")]
        if len(defs) != 1:
            return None
        d = defs[0]
        if d[2] == "call":
            name = d[3][1]["f"]
            args = d[3][2]
            if name.endswith("::into_iter") or name.endswith("::rev") or name.endswith("::step_by") or name.endswith("::skip") or name.endswith("::take"):
                l = operand_local(args[0])
                if l is None:
                    return None
                return self.iter_range(l, depth + 1)
            if name.endswith("RangeInclusive::<Idx>::new"):
                a, c = self.op_ival(args[0]), self.op_ival(args[1])
                if a is None or c is None:
                    return None
                return (a[0], c[1])
            return None
        rv = d[3][2]
        if rv[0] == "agg" and rv[1].get("k") == "adt" and rv[1].get("path", "").endswith("ops::Range"):
            a, c = self.op_ival(rv[2][0]), self.op_ival(rv[2][1])
            if a is None or c is None:
                return None
            return (a[0], c[1] - 1)
        if rv[0] == "use":
            l = operand_local(rv[1])
            if l is not None:
                return self.iter_range(l, depth + 1)
        return None

    def iter_struct(self, itlocal, depth=0):
        """Shape of what an iterator local yields: ('chunk', n) a slice of exactly n elements (chunks_exact),
        ('chunkle', n) a non-empty slice of at most n, ('tuple', [..]) for zip / enumerate, None when unknown."""
        if depth > 10:
            return None
        defs = [d for d in self.b.defs().get(itlocal, []) if d[2] in ("A", "call")]
        if len(defs) != 1:
            return None
        d = defs[0]
        if d[2] == "A":
            rv = d[3][2]
            if rv[0] == "use":
                l = operand_local(rv[1])
                return self.iter_struct(l, depth + 1) if l is not None else None
            return None
        nm = d[3][1]["f"]
        args = d[3][2]
        last = nm.rsplit("::", 1)[-1]
        a0 = operand_local(args[0]) if args else None
        if last in ("into_iter", "rev", "skip", "take", "by_ref", "fuse", "peekable") and a0 is not None:
            return self.iter_struct(a0, depth + 1)
        if last in ("chunks_exact", "chunks_exact_mut", "windows") and len(args) == 2:
            n = self.op_ival(args[1])
            if n is not None and n[0] == n[1] and n[0] >= 1:
                return ("chunk", int(n[0]))
            return None
        if last in ("chunks", "chunks_mut") and len(args) == 2:
            n = self.op_ival(args[1])
            if n is not None and n[0] == n[1] and n[0] >= 1:
                return ("chunkle", int(n[0]))
            return None
        if last == "zip" and len(args) == 2:
            a1 = operand_local(args[1])
            return ("tuple", [self.iter_struct(a0, depth + 1) if a0 is not None else None,
                              self.iter_struct(a1, depth + 1) if a1 is not None else None])
        if last == "enumerate" and a0 is not None:
            return ("tuple", [("index",), self.iter_struct(a0, depth + 1)])
        return None

    def iter_count(self, itlocal, at, depth=0):
        """Upper bound on the number of items an iterator local yields (None when unknown)."""
        if depth > 10:
            return None
        defs = [d for d in self.b.defs().get(itlocal, []) if d[2] in ("A", "call")]
        if len(defs) != 1:
            return None
        d = defs[0]
        if d[2] == "A":
            rv = d[3][2]
            if rv[0] == "use":
                l = operand_local(rv[1])
                return self.iter_count(l, at, depth + 1) if l is not None else None
            if rv[0] == "agg" and rv[1].get("path", "").endswith("ops::Range"):
                a, c = self.op_ival(rv[2][0]), self.op_ival(rv[2][1])
                if a is not None and c is not None and c[1] != INF:
                    return max(0, c[1] - a[0])
            return None
        nm = d[3][1]["f"]
        args = d[3][2]
        last = nm.rsplit("::", 1)[-1]
        a0 = operand_local(args[0]) if args else None
        if last in ("into_iter", "rev", "enumerate", "by_ref", "fuse", "peekable", "skip", "map", "inspect") and a0 is not None:
            n = self.iter_count(a0, at, depth + 1)
            if n is None and last == "into_iter":
                L = self.slice_len(args[0], at, depth + 1)     # `for x in &array`
                return L[1] if L is not None and L[1] != INF else None
            return n
        if last in ("iter", "iter_mut") and args:
            L = self.slice_len(args[0], at, depth + 1)
            return L[1] if L is not None and L[1] != INF else None
        if last in ("chunks_exact", "chunks_exact_mut", "chunks", "chunks_mut") and len(args) == 2:
            L = self.slice_len(args[0], at, depth + 1)
            n = self.op_ival(args[1])
            if L is not None and L[1] != INF and n is not None and n[0] >= 1:
                return -(-L[1] // n[0])
            return None
        if last == "zip" and len(args) == 2:
            a1 = operand_local(args[1])
            x = self.iter_count(a0, at, depth + 1) if a0 is not None else None
            y = self.iter_count(a1, at, depth + 1) if a1 is not None else None
            if x is None:
                return y
            if y is None:
                return x
            return min(x, y)
        if last == "take" and len(args) == 2:
            n = self.op_ival(args[1])
            return n[1] if n is not None and n[1] != INF else None
        return None

    def yielded_index(self, local, at, depth=0):
        """Interval of a local that is the index component of an `enumerate()` payload."""
        d = self.b.single_def(local)
        if not d or d[2] != "A" or d[3][2][0] != "use" or depth > 8:
            return None
        o = d[3][2][1]
        if o[0] not in ("cp", "mv"):
            return None
        pl = o[1]
        if len(pl) == 1:
            return self.yielded_index(pl[0], at, depth + 1)
        # find the next() call at the root of the projection chain and the path of tuple fields taken
        root, proj = pl[0], list(pl[1:])
        chain = []
        for _ in range(6):
            if len(proj) >= 2 and proj[0] != "*" and proj[0][0] == "d" and proj[1][0] == "f" and proj[1][1] == 0:
                chain = [e[1] for e in proj[2:] if e != "*" and e[0] == "f"] + chain
                break
            chain = [e[1] for e in proj if e != "*" and e[0] == "f"] + chain
            dd = self.b.single_def(root)
            if not dd or dd[2] != "A" or dd[3][2][0] != "use" or dd[3][2][1][0] not in ("cp", "mv"):
                return None
            root, proj = dd[3][2][1][1][0], list(dd[3][2][1][1][1:])
        else:
            return None
        dd = self.b.single_def(root)
        if not (dd and dd[2] == "call" and dd[3][1]["f"].endswith("::next") and dd[3][2]):
            return None
        l = operand_local(dd[3][2][0])
        it = self.ref_target_local(l) if l is not None else None
        st = self.iter_struct(it) if it is not None else None
        cur = st
        for k in chain:
            if cur is None or cur[0] != "tuple" or k >= len(cur[1]):
                return None
            cur = cur[1][k]
        if cur != ("index",):
            return None
        n = self.iter_count(it, at)
        if n is None or n <= 0:
            return None
        return (0, n - 1)

    def yielded_struct(self, local, depth=0):
        """Shape (see iter_struct) of a local that is (a component of) the payload of an iterator's `next()`."""
        if depth > 8:
            return None
        d = self.b.single_def(local)
        if not d or d[2] != "A" or d[3][2][0] != "use":
            return None
        o = d[3][2][1]
        if o[0] not in ("cp", "mv"):
            return None
        pl = o[1]
        if len(pl) == 1:
            return self.yielded_struct(pl[0], depth + 1)
        root = pl[0]
        proj = pl[1:]
        base = None
        if len(proj) >= 2 and proj[0] != "*" and proj[0][0] == "d" and proj[1][0] == "f" and proj[1][1] == 0:
            # (_opt as Some).0 ...
            dd = self.b.single_def(root)
            if dd and dd[2] == "call" and dd[3][1]["f"].endswith("::next") and dd[3][2]:
                l = operand_local(dd[3][2][0])
                it = self.ref_target_local(l) if l is not None else None
                base = self.iter_struct(it) if it is not None else None
            proj = proj[2:]
        else:
            base = self.yielded_struct(root, depth + 1)
        for e in proj:
            if base is None:
                return None
            if e != "*" and e[0] == "f" and base[0] == "tuple" and e[1] < len(base[1]):
                base = base[1][e[1]]
            elif e == "*":
                continue
            else:
                return None
        return base

    # ---- slice lengths -------------------------------------------------------
    def array_len_of_ty(self, tid):
        td = self.f.ty(tid)
        if td.get("k") in ("ref", "ptr"):
            td = self.f.ty(td["to"])
        if td.get("k") == "array" and isinstance(td.get("len"), int):
            return td["len"]
        return None

    def slice_len(self, op, at, depth=0):
        """Interval for the length of the slice/array a reference operand points to, valid at block `at`."""
        if depth > 25 or op[0] not in ("cp", "mv"):
            return None
        pl = op[1]
        local = pl[0]
        if len(pl) == 1:
            n = self.array_len_of_ty(self.b.local_ty(local))
            if n is not None:
                return (n, n)
            return self.ref_len(local, at, depth)
        return None

    def _vec_param(self, l):
        """a by-value `Vec<T>` parameter that the function never re-assigns or borrows mutably: its length is a
        fact of the call, like that of a slice parameter"""
        if not (0 < l <= self.fn["argc"]):
            return False
        if not self.ty(l).get("s", "").startswith(("alloc::vec::Vec<", "std::vec::Vec<")):
            return False
        if self.b.defs().get(l):
            return False
        for bi in self.b.reach:
            for st in self.b.blocks[bi]["s"]:
                if st[0] == "A" and st[2][0] in ("ref", "rawptr") and st[2][1] and st[2][2][0] == l:
                    return False      # &mut v: push / truncate may follow
                if st[0] == "A" and st[2][0] == "use" and st[2][1][0] == "mv" and st[2][1][1] == [l]:
                    return False      # moved away
        return True

    def place_len(self, pl, at, depth):
        """Length of the slice/array denoted by place `pl` (the referent, not a reference)."""
        local = pl[0]
        if len(pl) == 1 and self._vec_param(local):
            return self.guard_len(local, at)
        # type-based
        tid = self.b.local_ty(local)
        td = self.f.ty(tid)
        proj = pl[1:]
        i = 0
        cur = td
        ok = True
        while i < len(proj) and ok:
            e = proj[i]
            if e == "*":
                if cur.get("k") in ("ref", "ptr"):
                    cur = self.f.ty(cur["to"])
                else:
                    ok = False
            elif e[0] == "f":
                fs = None
                if cur.get("k") == "adt" and "variants" in cur and cur["variants"]:
                    fs = cur["variants"][0][2]
                    cur = self.f.ty(fs[e[1]][1]) if e[1] < len(fs) else None
                elif cur.get("k") == "tuple":
                    cur = self.f.ty(cur["elems"][e[1]])
                else:
                    ok = False
                if cur is None:
                    ok = False
            elif e[0] in ("i", "c"):
                if cur.get("k") in ("array", "slice"):
                    cur = self.f.ty(cur["elem"])
                else:
                    ok = False
            else:
                ok = False
            i += 1
        if ok and cur.get("k") == "array" and isinstance(cur.get("len"), int):
            return (cur["len"], cur["len"])
        if proj == ["*"]:
            return self.ref_len(local, at, depth + 1)
        return None

    def ref_len(self, local, at, depth):
        """Length behind reference-typed local."""
        key = ("len", local, at)
        if key in self.memo:
            return self.memo[key]
        if key in self.busy:
            return None
        self.busy.add(key)
        try:
            r = self._ref_len(local, at, depth)
        finally:
            self.busy.discard(key)
        self.memo[key] = r
        return r

    def _ref_len(self, local, at, depth):
        n = self.array_len_of_ty(self.b.local_ty(local))
        if n is not None:
            return (n, n)
        if local != 0 and local <= self.fn["argc"]:
            return self.guard_len(local, at)
        defs = [d for d in self.b.defs().get(local, []) if d[2] in ("A", "call")]
        if len(defs) != 1:
            return None
        d = defs[0]
        ys = self.yielded_struct(local)
        if ys is not None and ys[0] == "chunk":
            return (ys[1], ys[1])
        if ys is not None and ys[0] == "chunkle":
            return (1, ys[1])
        if d[2] == "A":
            rv = d[3][2]
            if rv[0] == "ref" or rv[0] == "rawptr":
                return self.place_len(rv[2], at, depth)
            if rv[0] == "use":
                o = rv[1]
                if o[0] in ("cp", "mv") and len(o[1]) == 2 and isinstance(o[1][1], list) and o[1][1][0] == "f":
                    dd = self.b.single_def(o[1][0])
                    if dd and dd[2] == "A" and dd[3][2][0] == "agg" and o[1][1][1] < len(dd[3][2][2]):
                        return self.slice_len(dd[3][2][2][o[1][1][1]], at, depth + 1)
                    if dd and dd[2] == "call" and (dd[3][1]["f"].endswith("::split_at") or dd[3][1]["f"].endswith("::split_at_mut")):
                        base = self.slice_len(dd[3][2][0], at, depth + 1)
                        mid = self.op_ival(dd[3][2][1])
                        if mid is not None and mid[0] == mid[1]:
                            if o[1][1][1] == 0:
                                return (mid[0], mid[0])
                            if base is not None:
                                return (max(0, base[0] - mid[0]), base[1] - mid[0])
                    return None
                return self.slice_len(rv[1], at, depth + 1)
            if rv[0] == "cast":
                # unsizing &[T;N] -> &[T]
                src = rv[2]
                if src[0] in ("cp", "mv") and len(src[1]) == 1:
                    n = self.array_len_of_ty(self.b.local_ty(src[1][0]))
                    if n is not None:
                        return (n, n)
                    return self.ref_len(src[1][0], at, depth + 1)
                if src[0] == "kc":
                    td = self.f.ty(src[1])
                    n = self.array_len_of_ty(src[1])
                    if n is not None:
                        return (n, n)
                return None
            return None
        t = d[3]
        name = t[1]["f"]
        args = t[2]
        if "ops::Index<I> for [T]>::index" in name or "ops::IndexMut<I> for [T]>::index_mut" in name \
                or "ops::Index<I> for [T; N]>::index" in name or "ops::IndexMut<I> for [T; N]>::index_mut" in name \
                or "Vec<T, A> as core::ops::Index<I>>::index" in name or "Vec<T, A> as core::ops::IndexMut<I>>::index_mut" in name:
            base = self.slice_len(args[0], at, depth + 1)
            rng = self.range_of(args[1])
            if rng is None:
                return None
            kind, a, c = rng
            if kind == "range":
                ro = self.range_operands(args[1])
                if ro is not None:
                    k = self.offset_between(ro[1], ro[2])
                    if k is not None and k >= 0:
                        return (k, k)
                    sv = self.offset_local_between(ro[1], ro[2])
                    if sv is not None:
                        iv = self.ival(sv[0], at, depth + 1)
                        if iv is not None and iv[0] + sv[1] >= 0:
                            return (iv[0] + sv[1], iv[1] + sv[1])
            if kind == "range" and a is not None and c is not None:
                lo = max(0, c[0] - a[1])
                hi = c[1] - a[0]
                return (lo, hi)
            if kind == "from" and a is not None and base is not None:
                return (max(0, base[0] - a[1]), base[1] - a[0])
            if kind == "to" and c is not None:
                return c
            if kind == "toinc" and c is not None:
                return (c[0] + 1, c[1] + 1)
            if kind == "full":
                return base
            return None
        if name.endswith("::as_ref") or "Deref>::deref" in name or "DerefMut>::deref_mut" in name \
                or name.endswith("::as_slice") or name.endswith("::as_mut_slice") or name.endswith("::as_mut") \
                or name.endswith("::as_bytes"):
            return self.slice_len(args[0], at, depth + 1)
        return None

    def range_of(self, op):
        """-> (kind, start_ival, end_ival) for a range-typed operand."""
        if op[0] == "kc":
            td = self.f.ty(op[1])
            if "RangeFull" in td.get("s", ""):
                return ("full", None, None)
            return None
        l = operand_local(op)
        if l is None:
            return None
        td = self.ty(l)
        s = td.get("s", "")
        d = self.b.single_def(l)
        if "RangeFull" in s:
            return ("full", None, None)
        if not d or d[2] != "A":
            return None
        rv = d[3][2]
        if rv[0] == "use" and rv[1][0] in ("cp", "mv"):
            return self.range_of(rv[1])
        if rv[0] != "agg":
            return None
        p = rv[1].get("path", "")
        ops = rv[2]
        if p.endswith("ops::Range"):
            return ("range", self.op_ival(ops[0]), self.op_ival(ops[1]))
        if p.endswith("ops::RangeFrom"):
            return ("from", self.op_ival(ops[0]), None)
        if p.endswith("ops::RangeTo"):
            return ("to", None, self.op_ival(ops[0]))
        if p.endswith("ops::RangeToInclusive"):
            return ("toinc", None, self.op_ival(ops[0]))
        if p.endswith("ops::RangeFull"):
            return ("full", None, None)
        return None

    # ---- structural expression identity ---------------------------------------
    def expr_key(self, op, reads, depth=0):
        """Canonical structure of a value by def-chasing; `reads` collects (mutable local, block of the
        reading temporary) so that the caller can validate that both expressions saw the same value."""
        c = const_int(op)
        if c is not None:
            return ("k", c)
        if op[0] not in ("cp", "mv") or len(op[1]) != 1:
            return ("?", id(op))
        return self.local_key(op[1][0], reads, depth, None)

    def local_key(self, l, reads, depth, reader_block):
        if depth > 12:
            return ("l", l)
        d = self.b.single_def(l)
        if d is None:
            reads.append((l, reader_block))
            return ("l", l)
        if d[2] == "call":
            nm = d[3][1]["f"]
            if nm.endswith("::len") and ("slice" in nm or "Vec" in nm or "str" in nm):
                lk = self.len_key(d[3][2][0], reads, depth + 1)
                if lk is not None:
                    return lk
            return ("l", l)
        rv = d[3][2]
        bi = d[0]
        if rv[0] == "un" and rv[1] == "PtrMetadata":
            lk = self.len_key(rv[2], reads, depth + 1)
            if lk is not None:
                return lk
            return ("l", l)
        if rv[0] == "use":
            o = rv[1]
            c = const_int(o)
            if c is not None:
                return ("k", c)
            if o[0] in ("cp", "mv") and len(o[1]) == 1:
                return self.local_key(o[1][0], reads, depth + 1, bi)
            return ("l", l)
        if rv[0] == "bin":
            return (rv[1], self._opk(rv[2], reads, depth, bi), self._opk(rv[3], reads, depth, bi))
        if rv[0] == "cast":
            return ("cast", rv[3], self._opk(rv[2], reads, depth, bi))
        return ("l", l)

    def _opk(self, o, reads, depth, bi):
        c = const_int(o)
        if c is not None:
            return ("k", c)
        if o[0] in ("cp", "mv") and len(o[1]) == 1:
            return self.local_key(o[1][0], reads, depth + 1, bi)
        return ("?", id(o))

    def reads_consistent(self, reads, own_def=None):
        """All reads of each mutable local see the same value: the reading blocks form a dominance chain and no
        definition of the local lies on it (between the first and the last read).  `own_def` = (local, block, stmt): that
        one definition is the statement whose right-hand side made the read (`j = j + c`), hence after it."""
        if not reads:
            return True
        if any(b is None for (_l, b) in reads):
            return False
        bylocal = {}
        for (l, bi) in reads:
            bylocal.setdefault(l, set()).add(bi)
        for l, blocks in bylocal.items():
            defs_l = self.b.defs().get(l, [])
            if not defs_l:
                continue
            bl = list(blocks)
            # nearest common dominator of the reading blocks: every read happens after it; the reads agree when no
            # definition of the local lies in a reading block or on a path from that dominator to one of them
            first = bl[0]
            for x in bl[1:]:
                guard = 0
                while not self.b.dominates(first, x) and guard < 10000:
                    nf = self.b.idom().get(first)
                    if nf is None or nf == first:
                        return False
                    first = nf
                    guard += 1
            between = set()
            for last in bl:
                if last == first:
                    continue
                fwd = set()
                st = list(self.b.succ[first])
                while st:
                    x = st.pop()
                    if x in fwd or x == first:
                        continue
                    fwd.add(x)
                    if x != last:
                        st.extend(self.b.succ[x])
                bwd = set()
                st = list(self.b.pred[last])
                while st:
                    x = st.pop()
                    if x in bwd or x == last:
                        continue
                    bwd.add(x)
                    if x != first:
                        st.extend(self.b.pred[x])
                between |= (fwd & bwd)
            for d in defs_l:
                D = d[0]
                if own_def is not None and own_def == (l, d[0], d[1]):
                    continue
                if D in blocks or D in between:
                    return False
        return True

    def offset_between(self, start_op, end_op):
        """k if end == start + k structurally (k integer), else None."""
        reads = []
        ks = self.expr_key(start_op, reads)
        ke = self.expr_key(end_op, reads)
        if not self.reads_consistent(reads):
            return None
        ls, le = self.linform(ks), self.linform(ke)
        if ls is None or le is None:
            return None
        d = dict(le[0])
        for k_, v_ in ls[0].items():
            d[k_] = d.get(k_, 0) - v_
        if any(v_ != 0 for v_ in d.values()):
            return None
        return le[1] - ls[1]

    def offset_local_between(self, start_op, end_op):
        """(local, c) if end == start + local + c structurally (`&xx[i..i + blen]`), else None."""
        reads = []
        ks = self.expr_key(start_op, reads)
        ke = self.expr_key(end_op, reads)
        if not self.reads_consistent(reads):
            return None
        ls, le = self.linform(ks), self.linform(ke)
        if ls is None or le is None:
            return None
        d = dict(le[0])
        for k_, v_ in ls[0].items():
            d[k_] = d.get(k_, 0) - v_
        nz = [(k_, v_) for k_, v_ in d.items() if v_ != 0]
        if len(nz) != 1 or nz[0][1] != 1 or nz[0][0][0] != "l":
            return None
        return nz[0][0][1], le[1] - ls[1]

    def linform(self, key, depth=0):
        """Linear form ({atom: coeff}, const) of a canonical expression key (None if too deep)."""
        if depth > 16:
            return None
        t = key[0]
        if t == "k":
            return ({}, key[1])
        if t in ("Add", "AddUnchecked", "Sub", "SubUnchecked"):
            a, b_ = self.linform(key[1], depth + 1), self.linform(key[2], depth + 1)
            if a is None or b_ is None:
                return None
            sign = 1 if t.startswith("Add") else -1
            d = dict(a[0])
            for k_, v_ in b_[0].items():
                d[k_] = d.get(k_, 0) + sign * v_
            return (d, a[1] + sign * b_[1])
        if t in ("Mul", "MulUnchecked"):
            a, b_ = self.linform(key[1], depth + 1), self.linform(key[2], depth + 1)
            if a is not None and b_ is not None:
                if not a[0]:
                    return ({k_: v_ * a[1] for k_, v_ in b_[0].items()}, b_[1] * a[1])
                if not b_[0]:
                    return ({k_: v_ * b_[1] for k_, v_ in a[0].items()}, a[1] * b_[1])
            return ({key: 1}, 0)
        if t in ("Shl", "ShlUnchecked"):
            a, b_ = self.linform(key[1], depth + 1), self.linform(key[2], depth + 1)
            if a is not None and b_ is not None and not b_[0] and 0 <= b_[1] < 63:
                m = 1 << b_[1]
                return ({k_: v_ * m for k_, v_ in a[0].items()}, a[1] * m)
            return ({key: 1}, 0)
        return ({key: 1}, 0)

    def len_key(self, op, reads, depth=0):
        """Canonical expression for the length of the slice/array behind a reference operand."""
        if depth > 14 or op[0] not in ("cp", "mv") or len(op[1]) != 1:
            if op[0] == "kc":
                n = self.array_len_of_ty(op[1])
                if n is not None:
                    return ("k", n)
            return None
        l = op[1][0]
        n = self.array_len_of_ty(self.b.local_ty(l))
        if n is not None:
            return ("k", n)
        if l != 0 and l <= self.fn["argc"]:
            return ("len", l)
        d = self.b.single_def(l)
        if not d:
            return None
        if d[2] == "A":
            rv = d[3][2]
            if rv[0] in ("ref", "rawptr"):
                pl = rv[2]
                if len(pl) == 2 and pl[1] == "*":
                    m = pl[0]
                    if len([x for x in self.b.defs().get(m, []) if x[2] in ("A", "call")]) > 1 and self.ty(m).get("k") in ("ref", "ptr"):
                        # a slice variable that is re-assigned (`rem = tail`): its current length, valid while no
                        # re-assignment lies between the reads (checked by reads_consistent)
                        reads.append((m, d[0]))
                        return ("lenl", m)
                    return self.len_key(["cp", [pl[0]]], reads, depth + 1)
                iv = self.place_len(pl, None, 0)
                if iv is not None and iv[0] == iv[1]:
                    return ("k", int(iv[0]))
                if len(pl) == 1 and pl[0] != 0 and pl[0] <= self.fn["argc"] and not self.b.defs().get(pl[0]):
                    # `&param` of a generic `impl AsRef<[u8]>` parameter (then `.as_ref()`): the length of what it denotes
                    return ("len", pl[0])
                return None
            if rv[0] == "use":
                o = rv[1]
                if o[0] in ("cp", "mv") and len(o[1]) == 2 and isinstance(o[1][1], list) and o[1][1][0] == "f":
                    dd = self.b.single_def(o[1][0])
                    if dd and dd[2] == "A" and dd[3][2][0] == "agg" and o[1][1][1] < len(dd[3][2][2]):
                        return self.len_key(dd[3][2][2][o[1][1][1]], reads, depth + 1)
                    if dd and dd[2] == "call" and (dd[3][1]["f"].endswith("::split_at") or dd[3][1]["f"].endswith("::split_at_mut")):
                        mid = self.expr_key(dd[3][2][1], reads, depth + 1)
                        if o[1][1][1] == 0:
                            return mid
                        base = self.len_key(dd[3][2][0], reads, depth + 1)
                        return ("Sub", base, mid) if base is not None else None
                    return None
                if o[0] in ("cp", "mv") and len(o[1]) == 1 and len([x for x in self.b.defs().get(o[1][0], []) if x[2] in ("A", "call")]) > 1 \
                        and self.ty(o[1][0]).get("k") in ("ref", "ptr"):
                    reads.append((o[1][0], d[0]))
                    return ("lenl", o[1][0])
                return self.len_key(rv[1], reads, depth + 1)
            if rv[0] == "cast":
                return self.len_key(rv[2], reads, depth + 1)
            return None
        t = d[3]
        name = t[1]["f"]
        args = t[2]
        if "ops::Index<I> for [T" in name or "ops::IndexMut<I> for [T" in name or "Vec<T, A> as core::ops::Index" in name:
            kind_ops = self.range_kind_operands(args[1])
            if kind_ops is None:
                return None
            kind, a, c = kind_ops
            if kind == "full":
                return self.len_key(args[0], reads, depth + 1)
            if kind == "range":
                return ("Sub", self.expr_key(c, reads, depth + 1), self.expr_key(a, reads, depth + 1))
            if kind == "to":
                return self.expr_key(c, reads, depth + 1)
            if kind == "from":
                base = self.len_key(args[0], reads, depth + 1)
                if base is None:
                    return None
                return ("Sub", base, self.expr_key(a, reads, depth + 1))
            return None
        if name.endswith("::as_ref") or "Deref>::deref" in name or "DerefMut>::deref_mut" in name \
                or name.endswith("::as_slice") or name.endswith("::as_mut_slice"):
            return self.len_key(args[0], reads, depth + 1)
        return None

    def range_kind_operands(self, op):
        if op[0] == "kc":
            td = self.f.ty(op[1])
            if "RangeFull" in td.get("s", ""):
                return ("full", None, None)
            return None
        l = operand_local(op)
        if l is None:
            return None
        if "RangeFull" in self.ty(l).get("s", ""):
            return ("full", None, None)
        d = self.b.single_def(l)
        if not d or d[2] != "A":
            return None
        rv = d[3][2]
        if rv[0] == "use" and rv[1][0] in ("cp", "mv"):
            return self.range_kind_operands(rv[1])
        if rv[0] != "agg":
            return None
        p = rv[1].get("path", "")
        ops = rv[2]
        if p.endswith("ops::Range"):
            return ("range", ops[0], ops[1])
        if p.endswith("ops::RangeFrom"):
            return ("from", ops[0], None)
        if p.endswith("ops::RangeTo"):
            return ("to", None, ops[0])
        if p.endswith("ops::RangeFull"):
            return ("full", None, None)
        return None

    def upper_key(self, op, reads, depth=0):
        """Canonical expression that is an inclusive upper bound of the operand's value."""
        c = const_int(op)
        if c is not None:
            return ("k", c)
        if op[0] not in ("cp", "mv") or len(op[1]) != 1 or depth > 12:
            return self.expr_key(op, reads, depth)
        l = op[1][0]
        d = self.b.single_def(l)
        if d is None or d[2] != "A":
            return self.expr_key(op, reads, depth)
        rv = d[3][2]
        if rv[0] == "use":
            o = rv[1]
            if o[0] in ("cp", "mv") and len(o[1]) == 3 and o[1][1][0] == "d" and o[1][2][0] == "f":
                end = self.iter_end_operand(o[1][0])
                if end is not None:
                    return ("Sub", self.expr_key(end, reads, depth + 1), ("k", 1))
                return self.expr_key(op, reads, depth)
            return self.upper_key(o, reads, depth + 1)
        if rv[0] == "bin" and rv[1] in ("Add", "AddUnchecked", "Sub", "SubUnchecked"):
            cb = const_int(rv[3])
            if cb is not None:
                return (rv[1], self.upper_key(rv[2], reads, depth + 1), ("k", cb))
            ca = const_int(rv[2])
            if ca is not None and rv[1].startswith("Add"):
                return (rv[1], ("k", ca), self.upper_key(rv[3], reads, depth + 1))
        return self.expr_key(op, reads, depth)

    def iter_end_operand(self, optlocal):
        """Exclusive end operand of the Range whose next() produced optlocal (None if not a plain Range)."""
        d = self.b.single_def(optlocal)
        if not d or d[2] != "call" or not d[3][1]["f"].endswith("::next"):
            return None
        l = operand_local(d[3][2][0])
        if l is None:
            return None
        it = self.ref_target_local(l)
        seen = 0
        while it is not None and seen < 8:
            defs = [x for x in self.b.defs().get(it, []) if x[2] in ("A", "call")]
            if len(defs) != 1:
                return None
            x = defs[0]
            if x[2] == "call":
                nm = x[3][1]["f"]
                if nm.endswith("::into_iter") or nm.endswith("::rev"):
                    it = operand_local(x[3][2][0])
                    seen += 1
                    continue
                return None
            rv = x[3][2]
            if rv[0] == "agg" and rv[1].get("path", "").endswith("ops::Range"):
                return rv[2][1]
            if rv[0] == "use":
                it = operand_local(rv[1])
                seen += 1
                continue
            return None
        return None

    def provably_less(self, idx_op, len_key):
        """True if an upper bound of idx_op is structurally < len_key."""
        if len_key is None:
            return False
        reads = []
        uk = self.upper_key(idx_op, reads)
        if not self.reads_consistent(reads):
            return False
        lu, ll = self.linform(uk), self.linform(len_key)
        if lu is None or ll is None:
            return False
        d = dict(lu[0])
        for k_, v_ in ll[0].items():
            d[k_] = d.get(k_, 0) - v_
        if any(v_ != 0 for v_ in d.values()):
            return False
        return lu[1] - ll[1] < 0

    def _min_args(self, l):
        """If local l = min(a, b) (core::cmp::min or usize::min) return the two operands."""
        d = self.b.single_def(l)
        if d and d[2] == "call":
            nm = d[3][1]["f"]
            if (nm.startswith("core::cmp::min") or nm.endswith("::min")) and len(d[3][2]) == 2:
                return d[3][2]
        if d and d[2] == "A" and d[3][2][0] == "use":
            l2 = operand_local(d[3][2][1])
            if l2 is not None:
                return self._min_args(l2)
        if d is None:
            return self._ifelse_min(l)
        return None

    def _min_keys(self, l, reads):
        """expression keys (a, b) such that local l = min(a, b)."""
        ma = self._min_args(l)
        if ma is not None and not isinstance(ma, tuple):
            return [self.expr_key(a, reads) for a in ma]
        if isinstance(ma, tuple):
            reads.extend(ma[1])
            return ma[0]
        return None

    def _ifelse_min(self, l):
        """`let m = if e > K { K } else { e }` (either orientation): two definitions, a constant K where a dominating
        branch edge says e >= K, and e where the opposite edge says e <= K: m = min(K, e).  Returns ([keys], reads)."""
        defs = self.b.defs().get(l, [])
        if len(defs) != 2 or any(d[2] != "A" for d in defs):
            return None
        kd = [d for d in defs if d[3][2][0] == "use" and const_int(d[3][2][1]) is not None]
        ed = [d for d in defs if d not in kd]
        if len(kd) != 1 or len(ed) != 1:
            return None
        K = const_int(kd[0][3][2][1])
        rv = ed[0][3][2]
        reads = []
        if rv[0] == "use" and rv[1][0] in ("cp", "mv"):
            ekey = self.expr_key(rv[1], reads)
        elif rv[0] == "bin":
            ekey = (rv[1], self._opk(rv[2], reads, 0, ed[0][0]), self._opk(rv[3], reads, 0, ed[0][0]))
        else:
            return None

        def guarded(block, want_lo, want_hi):
            for (gk, greads, lo, hi, efrom, eto) in self.value_guards():
                if gk != ekey:
                    continue
                if not (eto == block or self.b.dominates(eto, block)):
                    continue
                preds = [p for p in self.b.pred[eto] if p in self.b.reachset]
                if any(p != efrom for p in preds):
                    continue
                if not self.reads_consistent(list(reads) + list(greads)):
                    continue
                if want_lo is not None and lo >= want_lo:
                    return True
                if want_hi is not None and hi <= want_hi:
                    return True
            return False
        if guarded(kd[0][0], K, None) and guarded(ed[0][0], None, K):
            return ([("k", K), ekey], reads)
        return None

    def ub_linforms(self, key, reads, depth=0):
        """Linear forms that are upper bounds of the expression: atoms defined as min(a, b) are replaced by
        either argument (at most 4 alternatives)."""
        lf = self.linform(key)
        if lf is None:
            return []
        return self.ub_expand(lf, reads, depth)

    def ub_expand(self, lf, reads, depth=0):
        """Upper-bound alternatives of a linear form (atoms that are min(a, b) replaced by either argument)."""
        out = [lf]
        for atom, coef in list(lf[0].items()):
            if coef <= 0 or atom[0] != "l" or depth > 2:
                continue
            ma = self._min_keys(atom[1], reads)
            if ma is None:
                continue
            alts = []
            for ak in ma:
                for base in out:
                    if atom not in base[0]:
                        continue
                    sub = self.linform(ak)
                    if sub is None:
                        continue
                    d = dict(base[0])
                    c = d.pop(atom)
                    for k_, v_ in sub[0].items():
                        d[k_] = d.get(k_, 0) + c * v_
                    alts.append((d, base[1] + c * sub[1]))
            out = (out + alts)[:8]
        return out

    def provably_le_len(self, op, len_key):
        """op <= len_key structurally (using min() upper bounds)."""
        if len_key is None:
            return False
        reads = []
        key = self.expr_key(op, reads)
        ll = self.linform(len_key)
        if ll is None:
            return False
        forms = self.ub_linforms(key, reads)
        if not self.reads_consistent(reads):
            return False
        for lf in forms:
            d = dict(lf[0])
            for k_, v_ in ll[0].items():
                d[k_] = d.get(k_, 0) - v_
            if all(v_ == 0 for v_ in d.values()) and lf[1] - ll[1] <= 0:
                return True
        return False

    def provably_le_len_key(self, key, reads, len_key, own_def=None):
        """provably_le_len for an expression key built by the caller (a reaching definition re-expressed)"""
        if len_key is None:
            return False
        ll = self.linform(len_key)
        if ll is None:
            return False
        forms = self.ub_linforms(key, reads)
        if not self.reads_consistent(reads, own_def):
            return False
        for lf in forms:
            d = dict(lf[0])
            for k_, v_ in ll[0].items():
                d[k_] = d.get(k_, 0) - v_
            if all(v_ == 0 for v_ in d.values()) and lf[1] - ll[1] <= 0:
                return True
        return False

    def diff_nonneg(self, start_op, end_op):
        """end - start is a sum of unsigned variables with non-negative coefficients and a non-negative constant."""
        reads = []
        ks = self.expr_key(start_op, reads)
        ke = self.expr_key(end_op, reads)
        if not self.reads_consistent(reads):
            return False
        ls, le = self.linform(ks), self.linform(ke)
        if ls is None or le is None:
            return False
        d = dict(le[0])
        for k_, v_ in ls[0].items():
            d[k_] = d.get(k_, 0) - v_
        if le[1] - ls[1] < 0:
            return False
        for k_, v_ in d.items():
            if v_ < 0:
                return False
            if v_ > 0:
                if k_[0] in ("len", "lenl"):
                    continue        # lengths are non-negative
                if k_[0] != "l":
                    return False
                td = self.ty(k_[1])
                if td.get("k") != "uint":
                    return False
        return True

    def same_length(self, op1, op2):
        """True if both references provably denote slices of the same length (structurally)."""
        reads = []
        k1 = self.len_key(op1, reads)
        k2 = self.len_key(op2, reads)
        if k1 is None or k2 is None:
            return False
        if not self.reads_consistent(reads):
            return False
        l1, l2 = self.linform(k1), self.linform(k2)
        if l1 is None or l2 is None:
            return False
        d = dict(l1[0])
        for k_, v_ in l2[0].items():
            d[k_] = d.get(k_, 0) - v_
        if all(v_ == 0 for v_ in d.values()) and l1[1] == l2[1]:
            return True
        d = self.parity_rewrite(d)
        return all(v_ == 0 for v_ in d.values()) and l1[1] == l2[1]

    def parity_rewrite(self, d):
        """Under a dominating test `(x & 1) == 0` the value x equals 2 * (x >> 1): rewrite atom x accordingly
        (`let rlen = sig.len() >> 1` after the evenness check: len - rlen == rlen)."""
        at = self.at
        if at is None:
            return d
        even = []
        for (gk, greads, lo, hi, efrom, eto) in self.value_guards():
            if gk[0] == "BitAnd" and gk[2] == ("k", 1) and lo == 0 and hi == 0:
                if eto == at or self.b.dominates(eto, at):
                    preds = [p for p in self.b.pred[eto] if p in self.b.reachset]
                    if all(p == efrom for p in preds):
                        even.append(gk[1])
        if not even:
            return d
        out = dict(d)
        for x in even:
            if out.get(x):
                c = out.pop(x)
                h = ("Shr", x, ("k", 1))
                out[h] = out.get(h, 0) + 2 * c
        return out

    def range_operands(self, op):
        """(kind, start operand, end operand) of a range-typed operand (operands, not intervals)."""
        l = operand_local(op)
        if l is None:
            return None
        d = self.b.single_def(l)
        if not d or d[2] != "A":
            return None
        rv = d[3][2]
        if rv[0] == "use" and rv[1][0] in ("cp", "mv"):
            return self.range_operands(rv[1])
        if rv[0] != "agg":
            return None
        p = rv[1].get("path", "")
        if p.endswith("ops::Range"):
            return ("range", rv[2][0], rv[2][1])
        return None

    # ---- dominating guards on parameter slice lengths ------------------------
    def len_root(self, op, depth=0):
        """If op is (a copy of) len(param slice) return the param local."""
        if depth > 10:
            return None
        l = operand_local(op)
        if l is None:
            return None
        d = self.b.single_def(l)
        if not d:
            return None
        if d[2] == "call":
            name = d[3][1]["f"]
            if name.endswith("::len") and ("slice" in name or "Vec" in name or "str" in name):
                return self.ref_root(d[3][2][0])
            return None
        rv = d[3][2]
        if rv[0] == "use":
            return self.len_root(rv[1], depth + 1)
        if rv[0] == "un" and rv[1] == "PtrMetadata":
            return self.ref_root(rv[2])
        return None

    def ref_root(self, op, depth=0):
        """Parameter local that a reference operand is a plain reborrow of."""
        if depth > 10 or op[0] not in ("cp", "mv"):
            return None
        pl = op[1]
        if len(pl) == 2 and pl[1] == "*":
            # `*x` with `x = &y`: the value is y itself
            dx = self.b.single_def(pl[0])
            if dx and dx[2] == "A" and dx[3][2][0] == "ref" and len(dx[3][2][2]) == 1:
                return self.ref_root(["cp", [dx[3][2][2][0]]], depth + 1)
            return None
        if len(pl) != 1:
            return None
        l = pl[0]
        if l != 0 and l <= self.fn["argc"]:
            return l
        d = self.b.single_def(l)
        if not d:
            return None
        if d[2] == "A":
            rv = d[3][2]
            if rv[0] == "ref" and len(rv[2]) == 2 and rv[2][1] == "*":
                return self.ref_root(["cp", [rv[2][0]]], depth + 1)
            if rv[0] == "ref" and len(rv[2]) == 3 and rv[2][1] == "*" and rv[2][2] == "*":
                return self.ref_root(["cp", [rv[2][0]]], depth + 1)      # &**x
            if rv[0] == "ref" and len(rv[2]) == 1 and self.ty(rv[2][0]).get("k") in ("ref", "ptr"):
                return self.ref_root(["cp", [rv[2][0]]], depth + 1)      # &x with x itself a reference (auto-deref at the use)
            if rv[0] == "ref" and len(rv[2]) == 1 and self._vec_param(rv[2][0]):
                return rv[2][0]                                          # &v of a by-value Vec parameter
            if rv[0] in ("use", "cast"):
                return self.ref_root(rv[1] if rv[0] == "use" else rv[2], depth + 1)
        elif d[2] == "call":
            name = d[3][1]["f"]
            if name.endswith("::as_ref") or "Deref>::deref" in name:
                return self.ref_root(d[3][2][0], depth + 1)
        return None

    def guards(self):
        """List of (param local, lo, hi, edge_from, edge_to): on CFG edge the length is within [lo,hi]."""
        if self._guards is not None:
            return self._guards
        out = []
        b = self.b
        # an index that passed its bounds check tells the length: after `v[k]`, len(v) >= k + 1 on the continuing edge
        for bi in b.reach:
            t = b.blocks[bi]["t"]
            if t[0] == "assert" and t[3] == "bounds" and len(t[4]) == 2 and t[5] is not None:
                root = self.len_root(t[4][0])
                if root is not None:
                    save = self.at
                    self.at = bi
                    try:
                        iv = self.op_ival(t[4][1], bi)
                    finally:
                        self.at = save
                    if iv is not None and iv[0] >= 0 and iv[0] < (1 << 40):
                        out.append((root, int(iv[0]) + 1, INF, bi, t[5]))
        for bi in b.reach:
            t = b.blocks[bi]["t"]
            if t[0] != "switch":
                continue
            l = operand_local(t[1])
            if l is None:
                continue
            if self.ctx is not None:
                self._call_success_guards(bi, t, l, out)
            root = self.len_root(t[1])
            if root is not None:
                # `match slice.len() { 4 => .., 5 => .. }`
                for val, tgt in t[2]:
                    out.append((root, int(val), int(val), bi, tgt))
                continue
            d = b.single_def(l)
            if not d or d[2] != "A":
                continue
            rv = d[3][2]
            conds = []   # list of (root, op, const, negate)
            self._collect_conds(rv, conds, False, 0)
            if not conds:
                continue
            # successor taken when discriminant == 0 (false) / otherwise (true)
            false_t = [x[1] for x in t[2] if int(x[0]) == 0]
            true_t = t[3]
            for (root, op, c, kind) in conds:
                # kind: 'and' -> all conds hold on the true edge; 'or' -> all negated conds hold on the false edge; 'single'
                if kind in ("single", "and"):
                    iv = self._cond_interval(op, c, True)
                    if iv:
                        out.append((root, iv[0], iv[1], bi, true_t))
                if kind in ("single", "or"):
                    iv = self._cond_interval(op, c, False)
                    if iv:
                        for ft in false_t:
                            out.append((root, iv[0], iv[1], bi, ft))
        self._guards = out
        return out

    # ---- facts implied by a callee's success (status != 0 / Some) ----------------
    def _call_of(self, op, depth=0):
        """(call terminator, tuple-field or None) if operand is (a copy of) a local call's result."""
        if depth > 8 or op[0] not in ("cp", "mv"):
            return None
        pl = op[1]
        l = pl[0]
        fld = None
        if len(pl) == 2 and pl[1][0] == "f":
            fld = pl[1][1]
        elif len(pl) != 1:
            return None
        d = self.b.single_def(l)
        if not d:
            return None
        if d[2] == "call":
            nm = d[3][1]["f"]
            if not d[3][1]["l"] and "option::Option" in nm and d[3][2] and nm.rsplit("::", 1)[-1] in (
                    "filter", "map", "and_then", "inspect", "copied", "cloned", "as_ref", "as_mut", "zip"):
                # Some(..) out of these combinators implies Some(..) in: the success facts of the producer still hold
                inner = self._call_of(d[3][2][0], depth + 1)
                if inner is not None:
                    return inner
            return (d[3], fld)
        if fld is None and d[3][2][0] == "use":
            return self._call_of(d[3][2][1], depth + 1)
        return None

    def _emit_callee_facts(self, call_t, efrom, eto, out):
        callee = call_t[1]
        if not callee["l"]:
            return
        sl = self.ctx.succ_len(callee["id"])
        if not sl:
            return
        args = call_t[2]
        for p, (lo, hi) in sl.items():
            if p - 1 >= len(args):
                continue
            root = self.ref_root(args[p - 1])
            if root is None:
                continue
            out.append((root, lo, hi, efrom, eto))

    def _call_success_guards(self, bi, t, l, out):
        d = self.b.single_def(l)
        false_t = [x[1] for x in t[2] if int(x[0]) == 0]
        true_t = t[3]
        if d and d[2] == "call" and d[3][1]["l"]:
            # `if helper(buf) { .. }`: success = true edge
            self._emit_callee_facts(d[3], bi, true_t, out)
            return
        if not d or d[2] != "A":
            return
        rv = d[3][2]
        if rv[0] == "un" and rv[1] == "Not":
            co = self._call_of(rv[2])
            if co is not None:
                for ft in false_t:
                    self._emit_callee_facts(co[0], bi, ft, out)
            return
        if rv[0] == "use":
            co = self._call_of(rv[1])
            if co is not None:
                self._emit_callee_facts(co[0], bi, true_t, out)
            return
        if rv[0] == "bin" and rv[1] in ("Eq", "Ne"):
            for x, y in ((rv[2], rv[3]), (rv[3], rv[2])):
                c = const_int(y)
                if c == 0:
                    co = self._call_of(x)
                    if co is None:
                        continue
                    # success edge: value != 0
                    if rv[1] == "Ne":
                        self._emit_callee_facts(co[0], bi, true_t, out)
                    else:
                        for ft in false_t:
                            self._emit_callee_facts(co[0], bi, ft, out)
            return
        if rv[0] == "discr":
            pl = rv[1]
            if len(pl) != 1:
                return
            dd = self.b.single_def(pl[0])
            if not dd or dd[2] != "call":
                return
            ct = dd[3]
            nm = ct[1]["f"]
            if nm.endswith("Try>::branch"):
                inner = self._call_of(ct[2][0])
                if inner is None:
                    return
                # ControlFlow::Continue is variant 0
                for val, tgt in t[2]:
                    if int(val) == 0:
                        self._emit_callee_facts(inner[0], bi, tgt, out)
            elif ct[1]["l"]:
                # Option returned directly: Some is variant 1
                for val, tgt in t[2]:
                    if int(val) == 1:
                        self._emit_callee_facts(ct, bi, tgt, out)

    def _callee_facts_dict(self, call_t):
        out = {}
        if not call_t[1]["l"] or self.ctx is None:
            return out
        for p, iv in self.ctx.succ_len(call_t[1]["id"]).items():
            if p - 1 < len(call_t[2]):
                root = self.ref_root(call_t[2][p - 1])
                if root is not None:
                    out[root] = iv
        return out

    def _cond_success_facts(self, op, depth=0):
        """{param: (lo, hi)} implied by the bool operand being true"""
        l = operand_local(op)
        d = self.b.single_def(l) if l is not None else None
        if not d or depth > 6:
            return {}
        if d[2] == "call":
            return self._callee_facts_dict(d[3])
        rv = d[3][2]
        if rv[0] == "use":
            return self._cond_success_facts(rv[1], depth + 1)
        if rv[0] == "bin" and rv[1] in ("Ne", "Eq", "Ge", "Gt", "Le", "Lt"):
            for x, y, flip in ((rv[2], rv[3], False), (rv[3], rv[2], True)):
                c = const_int(y)
                if c is None:
                    continue
                if c == 0 and rv[1] == "Ne":
                    co = self._call_of(x)
                    if co is not None:
                        return self._callee_facts_dict(co[0])
                root = self.len_root(x)
                if root is not None:
                    opn = rv[1]
                    if flip:
                        opn = {"Eq": "Eq", "Ne": "Ne", "Lt": "Gt", "Le": "Ge", "Gt": "Lt", "Ge": "Le"}[opn]
                    iv = self._cond_interval(opn, int(c), True)
                    if iv:
                        return {root: iv}
        return {}

    def _option_success_facts(self, op, depth=0):
        """{param: (lo, hi)} implied by the Option operand being Some"""
        if depth > 6 or op[0] not in ("cp", "mv") or len(op[1]) != 1:
            return {}
        d = self.b.single_def(op[1][0])
        if not d:
            return {}
        if d[2] == "A":
            if d[3][2][0] == "use":
                return self._option_success_facts(d[3][2][1], depth + 1)
            return {}
        t = d[3]
        nm = t[1]["f"]
        if t[1]["l"]:
            return self._callee_facts_dict(t)
        last = nm.rsplit("::", 1)[-1]
        if "bool" in nm and last in ("then_some", "then") and t[2]:
            return self._cond_success_facts(t[2][0])
        if "option::Option" in nm and last in ("filter", "map", "and_then", "inspect", "copied", "cloned", "zip") and t[2]:
            return self._option_success_facts(t[2][0], depth + 1)
        return {}

    def success_lengths(self):
        """{param: (lo, hi)}: bounds on len(param slice) that hold whenever this function reports success
        (returns Some / a non-zero status / true)."""
        fn = self.fn
        rt = self.f.ty(fn["locals"][0][0])
        k = rt.get("k")
        s_ = rt.get("s", "")
        mode = None
        if s_.startswith("core::option::Option<") or s_.startswith("std::option::Option<"):
            mode = "option"
        elif k == "uint" and rt.get("bits") == 32:
            mode = "status"
        elif k == "tuple" and rt["elems"] and self.f.ty(rt["elems"][-1]).get("k") == "uint" and self.f.ty(rt["elems"][-1]).get("bits") == 32:
            mode = "tuple"
        elif k == "bool":
            mode = "bool"
        if mode is None:
            return {}
        params = []
        for i in range(1, fn["argc"] + 1):
            td = self.f.ty(fn["locals"][i][0])
            if td.get("k") in ("ref", "ptr") and self.f.ty(td["to"]).get("k") == "slice":
                params.append(i)
        if not params:
            return {}
        succ_blocks = []
        for d in self.b.defs().get(0, []):
            bi = d[0]
            if d[2] == "call":
                nm = d[3][1]["f"]
                if "FromResidual" in nm:
                    continue
                succ_blocks.append(bi)
                continue
            if d[2] != "A":
                succ_blocks.append(bi)
                continue
            rv = d[3][2]
            if mode == "option" and rv[0] == "agg" and rv[1].get("k") == "adt" and rv[1].get("variant") == 0:
                continue
            if mode in ("status", "bool") and rv[0] == "use" and const_int(rv[1]) == 0:
                continue
            if mode == "tuple" and rv[0] == "agg" and rv[2] and const_int(rv[2][-1]) == 0:
                continue
            succ_blocks.append(bi)
        if not succ_blocks:
            return {}
        out = {}
        # `(status != 0).then_some(v)` / `decode(buf).filter(..)`: Some-ness decided by a std combinator
        if mode == "option":
            d0 = self.b.single_def(0) if len(self.b.defs().get(0, [])) == 1 else None
            if d0 and d0[2] == "call" and not d0[3][1]["l"]:
                r = self._option_success_facts(["cp", [0]])
                if r:
                    return r
        # `fn check_len(buf) -> bool { buf.len() == 32 }`: the returned comparison itself
        if mode == "bool":
            d0 = self.b.single_def(0) if len(self.b.defs().get(0, [])) == 1 else None
            if d0 and d0[2] == "A" and d0[3][2][0] == "bin" and d0[3][2][1] in ("Eq", "Ge", "Gt", "Le", "Lt"):
                rv = d0[3][2]
                for x, y, flip in ((rv[2], rv[3], False), (rv[3], rv[2], True)):
                    root = self.len_root(x)
                    c = self.op_ival(y)
                    if root is not None and c is not None and c[0] == c[1]:
                        op = rv[1]
                        if flip:
                            op = {"Eq": "Eq", "Lt": "Gt", "Le": "Ge", "Gt": "Lt", "Ge": "Le"}[op]
                        iv = self._cond_interval(op, int(c[0]), True)
                        if iv:
                            return {root: iv}
        for p in params:
            lo, hi = None, None
            for bi in succ_blocks:
                g = self.guard_len(p, bi)
                lo = g[0] if lo is None else min(lo, g[0])
                hi = g[1] if hi is None else max(hi, g[1])
            if lo is not None and (lo > 0 or hi != INF):
                out[p] = (lo, hi)
        return out

    def _collect_conds(self, rv, conds, neg, depth):
        if depth > 6:
            return
        if rv[0] == "bin" and rv[1] in ("Eq", "Ne", "Lt", "Le", "Gt", "Ge"):
            a, c = rv[2], rv[3]
            ra = self.len_root(a)
            cc = self.op_ival(c)
            if ra is not None and cc is not None and cc[0] == cc[1]:
                conds.append((ra, rv[1], int(cc[0]), "single"))
                return
            rc = self.len_root(c)
            ca = self.op_ival(a)
            if rc is not None and ca is not None and ca[0] == ca[1]:
                flip = {"Eq": "Eq", "Ne": "Ne", "Lt": "Gt", "Le": "Ge", "Gt": "Lt", "Ge": "Le"}[rv[1]]
                conds.append((rc, flip, int(ca[0]), "single"))
                return
            # `let n = buf.len() / E; if n < k { return None }`: a test on the element count is a test on the length
            for x, y, fl in ((a, c, False), (c, a, True)):
                dv = self._len_div(x)
                kv = self.op_ival(y)
                if dv is None or kv is None or kv[0] != kv[1]:
                    continue
                op = rv[1]
                if fl:
                    op = {"Eq": "Eq", "Ne": "Ne", "Lt": "Gt", "Le": "Ge", "Gt": "Lt", "Ge": "Le"}[op]
                root, e = dv
                k = int(kv[0])
                if op in ("Lt", "Ge"):
                    conds.append((root, op, k * e, "single"))
                elif op in ("Le", "Gt"):
                    conds.append((root, op, (k + 1) * e - 1, "single"))
                return
            return

    def _len_div(self, op):
        """(length root, E) when the operand is (a copy of) `len(root) / E`, E a positive constant"""
        l = operand_local(op)
        for _ in range(6):
            if l is None:
                return None
            d = self.b.single_def(l)
            if not d or d[2] != "A":
                return None
            rv = d[3][2]
            if rv[0] == "use":
                l = operand_local(rv[1])
                continue
            if rv[0] == "bin" and rv[1] == "Div":
                root = self.len_root(rv[2])
                e = self.op_ival(rv[3])
                if root is not None and e is not None and e[0] == e[1] and 0 < e[0] < (1 << 32):
                    return root, int(e[0])
            return None
        return None

    @staticmethod
    def _cond_interval(op, c, truth):
        if not truth:
            op = {"Eq": "Ne", "Ne": "Eq", "Lt": "Ge", "Le": "Gt", "Gt": "Le", "Ge": "Lt"}[op]
        if op == "Eq":
            return (c, c)
        if op == "Lt":
            return (0, c - 1)
        if op == "Le":
            return (0, c)
        if op == "Gt":
            return (c + 1, INF)
        if op == "Ge":
            return (c, INF)
        return None

    def guard_len(self, param, at):
        """Interval of len(param slice) at block `at` from dominating guard edges."""
        lo, hi = self.param_len.get(param, (0, INF))
        if at is None:
            return (lo, hi)
        b = self.b
        for (root, glo, ghi, efrom, eto) in self.guards():
            if root != param:
                continue
            # the edge efrom->eto dominates `at` if eto dominates at and eto's only reachable pred is efrom,
            # or (short-circuit `||`) every pred of eto carries a guard at least as strong -- handled by
            # intersecting over all preds below.
            if not b.dominates(eto, at):
                continue
            preds = [p for p in b.pred[eto] if p in b.reachset]
            if preds == [efrom] or all(p == efrom for p in preds):
                lo = max(lo, glo)
                hi = min(hi, ghi)
        # multi-pred join points (e.g. `a || b` lowering): take for each pred the fact holding there
        return (lo, hi)


class SuccCtx:
    """Memoised 'success implies length' summaries (bottom-up over the acyclic call graph)."""

    def __init__(self, facts):
        self.f = facts
        self.memo = {}
        self.busy = set()

    def ret_ival(self, fid):
        """Interval of the value returned by an unsigned-integer-returning local function (join over the definitions of
        its return place, no knowledge of the arguments), or None."""
        key = ("ret", fid)
        if key in self.memo:
            return self.memo[key]
        fn = self.f.fns.get(fid)
        self.memo[key] = None
        if fn is None or key in self.busy or len(fn["blocks"]) > 40:
            return None
        td = self.f.ty(fn["locals"][0][0])
        if td.get("k") != "uint":
            return None
        self.busy.add(key)
        try:
            from .mir import Body
            ev = FnEval(self.f, Body(fn), self)
            r = None
            ok = True
            for d in ev.b.defs().get(0, []):
                iv = ev._def_ival(0, d, 0) if d[2] in ("A", "call") and len(d[3][1] if d[2] == "A" else [0]) == 1 else None
                if iv is None:
                    ok = False
                    break
                r = iv if r is None else (min(r[0], iv[0]), max(r[1], iv[1]))
            res = r if ok and r is not None and r[1] != INF else None
        except Exception:
            res = None
        finally:
            self.busy.discard(key)
        self.memo[key] = res
        return res

    def succ_len(self, fid):
        if fid in self.memo:
            return self.memo[fid]
        if fid in self.busy:
            return {}
        fn = self.f.fns.get(fid)
        if fn is None:
            return {}
        self.busy.add(fid)
        try:
            from .mir import Body
            r = FnEval(self.f, Body(fn), self).success_lengths()
        finally:
            self.busy.discard(fid)
        self.memo[fid] = r
        return r
