"""Violation reporting, known findings and evidence files."""
import json
import os
import time

VERIF = os.path.dirname(os.path.dirname(os.path.abspath(__file__)))
EVID = os.environ.get("CRRL_EVIDENCE_DIR") or os.path.join(VERIF, "evidence")
REPLAY = os.path.join(EVID, "replay")
KNOWN = os.path.join(VERIF, "known_findings.json")

ASSUMPTIONS = [
    "A1: rustc's MIR construction and const evaluation are faithful to the source",
    "A2: the std model (tables/std_model.json) describes the listed external functions correctly; unlisted externals are treated fail-closed",
    "A3: integer add/sub/mul/logic/shift instructions are constant-time on the target",
    "A4: the reviewed tables under /verif/tables reflect the repository's documentation (each line cites its reason)",
    "A5: no unsafe code other than intrinsics / same-size transmutes present today",
]


class Finding:
    def __init__(self, rule, key, msg, config=None, site=None, path=None, prop=None):
        self.rule = rule          # e.g. "R19a"
        self.key = key            # stable key without line numbers
        self.msg = msg
        self.config = config
        self.site = site          # file:line
        self.path = path          # call path / def-use chain
        self.prop = prop

    def ident(self):
        return "%s|%s" % (self.rule, self.key)

    def to_json(self):
        return dict(rule=self.rule, key=self.key, msg=self.msg, config=self.config,
                    site=self.site, path=self.path)


def load_known():
    if not os.path.exists(KNOWN):
        return {"findings": [], "fixed": []}
    with open(KNOWN) as fh:
        return json.load(fh)


class Run:
    """One check invocation for one property."""

    def __init__(self, prop, tier, level="other"):
        self.prop = prop
        self.tier = tier
        self.level = level
        self.t0 = time.time()
        self.findings = []
        self.coverage = {}
        self.samples = []
        self.obligations = 0
        self.discharged = 0
        self.notes = []
        self.seed = int(os.environ.get("VERIF_SEED", "0") or 0)

    def add(self, finding):
        # de-duplicate on (ident, config)
        for f in self.findings:
            if f.ident() == finding.ident():
                if finding.config and f.config and finding.config not in f.config.split(","):
                    f.config += "," + finding.config
                return
        self.findings.append(finding)

    def oblige(self, n=1, ok=True):
        self.obligations += n
        if ok:
            self.discharged += n

    def sample(self, s, cap=12):
        if len(self.samples) < cap:
            self.samples.append(s)

    def finish(self, explanation, extra_cov=None, evaluations=None, distinct=None, rule=None,
               exhaustive=None):
        known = load_known()
        known_ids = {}
        for k in known.get("findings", []):
            if k.get("property") == self.prop:
                known_ids["%s|%s" % (k["rule"], k["key"])] = k
        viol = []
        knownhits = []
        for f in self.findings:
            if f.ident() in known_ids:
                knownhits.append(f)
            else:
                viol.append(f)
        os.makedirs(REPLAY, exist_ok=True)
        for f in knownhits:
            print("KNOWN-FINDING: property=%s %s" % (self.prop, f.msg))
        for i, f in enumerate(viol):
            rp = os.path.join(REPLAY, "%s-%d.json" % (self.prop, i))
            with open(rp, "w") as fh:
                json.dump(dict(property=self.prop, **f.to_json()), fh, indent=1)
            print("VIOLATION property=%s replay=%s" % (self.prop, rp))
            print("  rule=%s config=%s site=%s" % (f.rule, f.config, f.site))
            print("  %s" % f.msg)
            if f.path:
                print("  path: %s" % (" -> ".join(f.path) if isinstance(f.path, list) else f.path))
        cov = dict(explanation=explanation,
                   obligations=self.obligations,
                   discharged=self.discharged,
                   samples=self.samples if self.samples else ["(none)"],
                   known_findings=[f.msg for f in knownhits],
                   notes=self.notes)
        if evaluations is not None:
            cov["evaluations"] = evaluations
        if distinct is not None:
            cov["distinct_nontrivial"] = distinct
        if rule is not None:
            cov["rule"] = rule
        if exhaustive is not None:
            cov["exhaustive"] = exhaustive
        cov.update(self.coverage)
        if extra_cov:
            cov.update(extra_cov)
        ev = dict(property_id=self.prop, tier=self.tier, seed=self.seed, level=self.level,
                  coverage=cov, assumptions=ASSUMPTIONS, wall_s=round(time.time() - self.t0, 2),
                  violations=len(viol))
        os.makedirs(EVID, exist_ok=True)
        with open(os.path.join(EVID, "%s.json" % self.prop), "w") as fh:
            json.dump(ev, fh, indent=1)
        print("[%s] tier=%s obligations=%d discharged=%d violations=%d known=%d wall=%.1fs" % (
            self.prop, self.tier, self.obligations, self.discharged, len(viol), len(knownhits),
            time.time() - self.t0))
        return 1 if viol else 0
