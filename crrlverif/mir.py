"""MIR body utilities over the mirfacts JSON: CFG, dominators, post-dominators,
control dependence, natural loops, single-definition map."""


def term_succs(t):
    k = t[0]
    if k == "goto":
        return [t[1]]
    if k == "switch":
        return [x[1] for x in t[2]] + [t[3]]
    if k == "call":
        return [t[4]] if t[4] is not None else []
    if k == "assert":
        return [t[5]]
    if k == "drop":
        return [t[2]]
    return []


class Body:
    def __init__(self, fn):
        self.fn = fn
        self.blocks = fn["blocks"]
        n = len(self.blocks)
        self.n = n
        self.succ = [[] for _ in range(n)]
        self.pred = [[] for _ in range(n)]
        for i, b in enumerate(self.blocks):
            if b.get("c"):
                continue
            for s in term_succs(b["t"]):
                if self.blocks[s].get("c"):
                    continue
                if s not in self.succ[i]:
                    self.succ[i].append(s)
                    self.pred[s].append(i)
        # reachable blocks from entry (non-cleanup)
        self.reach = []
        seen = set([0])
        st = [0]
        while st:
            x = st.pop()
            self.reach.append(x)
            for s in self.succ[x]:
                if s not in seen:
                    seen.add(s)
                    st.append(s)
        self.reachset = seen
        self._rpo = None
        self._idom = None
        self._ipdom = None
        self._cdep = None
        self._defs = None

    # ---- orders ----
    def rpo(self):
        if self._rpo is None:
            order = []
            seen = set()
            stack = [(0, iter(self.succ[0]))]
            seen.add(0)
            while stack:
                node, it = stack[-1]
                adv = False
                for s in it:
                    if s not in seen:
                        seen.add(s)
                        stack.append((s, iter(self.succ[s])))
                        adv = True
                        break
                if not adv:
                    order.append(node)
                    stack.pop()
            order.reverse()
            self._rpo = order
        return self._rpo

    # ---- dominators (Cooper-Harvey-Kennedy) ----
    @staticmethod
    def _domtree(order, preds, root):
        idx = {b: i for i, b in enumerate(order)}
        idom = {root: root}
        changed = True
        while changed:
            changed = False
            for b in order:
                if b == root:
                    continue
                new = None
                for p in preds(b):
                    if p in idom:
                        if new is None:
                            new = p
                        else:
                            a, c = p, new
                            while a != c:
                                while idx[a] > idx[c]:
                                    a = idom[a]
                                while idx[c] > idx[a]:
                                    c = idom[c]
                            new = a
                if new is not None and idom.get(b) != new:
                    idom[b] = new
                    changed = True
        return idom

    def idom(self):
        if self._idom is None:
            self._idom = self._domtree(self.rpo(), lambda b: [p for p in self.pred[b] if p in self.reachset], 0)
        return self._idom

    def dominates(self, a, b):
        idom = self.idom()
        if b not in idom:
            return False
        while True:
            if a == b:
                return True
            nb = idom[b]
            if nb == b:
                return False
            b = nb

    def exits(self):
        return [b for b in self.reach if not self.succ[b]]

    def ipdom(self):
        """Immediate post-dominators with a virtual exit node n."""
        if self._ipdom is None:
            n = self.n
            ex = self.exits()
            rsucc = {b: list(self.pred[b]) for b in self.reach}
            rsucc[n] = ex
            rpred = {b: list(self.succ[b]) for b in self.reach}
            for e in ex:
                rpred[e] = rpred[e] + [n]
            # blocks in infinite loops never reach exit: they will simply be missing
            order = []
            seen = set([n])
            stack = [(n, iter(rsucc[n]))]
            while stack:
                node, it = stack[-1]
                adv = False
                for s in it:
                    if s not in seen:
                        seen.add(s)
                        stack.append((s, iter(rsucc.get(s, []))))
                        adv = True
                        break
                if not adv:
                    order.append(node)
                    stack.pop()
            order.reverse()
            self._ipdom = self._domtree(order, lambda b: rpred.get(b, []), n)
        return self._ipdom

    def cdep(self):
        """block -> set of (branch block, successor taken) it is control dependent on."""
        if self._cdep is None:
            ip = self.ipdom()
            cd = {b: set() for b in self.reach}
            for a in self.reach:
                if len(self.succ[a]) < 2:
                    continue
                stop = ip.get(a)
                for s in self.succ[a]:
                    x = s
                    guard = 0
                    while x is not None and x != stop and x in ip and guard < 10000:
                        if x == self.n:
                            break
                        cd[x].add((a, s))
                        nx = ip.get(x)
                        if nx == x:
                            break
                        x = nx
                        guard += 1
            self._cdep = cd
        return self._cdep

    # ---- loops ----
    def back_edges(self):
        out = []
        for b in self.reach:
            for s in self.succ[b]:
                if self.dominates(s, b):
                    out.append((b, s))
        return out

    def loops(self):
        """header -> set of blocks in the natural loop."""
        res = {}
        for (b, h) in self.back_edges():
            body = res.setdefault(h, set([h]))
            st = [b]
            while st:
                x = st.pop()
                if x in body:
                    continue
                body.add(x)
                st.extend(self.pred[x])
        return res

    # ---- definitions ----
    def defs(self):
        """local -> list of (block, stmt index or 'T', kind, payload) for whole-local assignments
        (projection-free destinations)."""
        if self._defs is None:
            d = {}
            for bi in self.reach:
                b = self.blocks[bi]
                for si, s in enumerate(b["s"]):
                    if s[0] == "A":
                        pl = s[1]
                        d.setdefault(pl[0], []).append((bi, si, "A" if len(pl) == 1 else "Ap", s))
                    elif s[0] == "SD":
                        d.setdefault(s[1][0], []).append((bi, si, "SD", s))
                t = b["t"]
                if t[0] == "call":
                    pl = t[3]
                    d.setdefault(pl[0], []).append((bi, "T", "call" if len(pl) == 1 else "callp", t))
            self._defs = d
        return self._defs

    def single_def(self, local):
        """The unique whole-local definition of `local` (None if several / partial / param)."""
        if local <= self.fn["argc"] and local != 0:
            return None
        l = self.defs().get(local, [])
        if len(l) == 1 and l[0][2] in ("A", "call"):
            return l[0]
        return None

    def local_ty(self, local):
        return self.fn["locals"][local][0]

    def local_name(self, local):
        return self.fn["locals"][local][1]


def operand_place(op):
    if op[0] in ("cp", "mv"):
        return op[1]
    return None


def operand_local(op):
    """Local if the operand is a projection-free copy/move."""
    if op is None:
        return None
    if op[0] in ("cp", "mv") and len(op[1]) == 1:
        return op[1][0]
    return None


def const_int(op):
    if op is None:
        return None
    if op[0] == "k" and op[1] is not None:
        return int(op[1])
    return None
