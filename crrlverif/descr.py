"""Symbolic descriptors of slices and integer values relative to a function's parameters.

Used by gates to name *what a check is about* independently of where in the call tree the check is written:
a descriptor computed inside a helper is re-expressed in the caller's terms when the helper's summary is
applied, so extracting `fn check_len(buf)` or `fn dec32be(b: &[u8])` does not change the facts seen at the
public entry point.

Slice descriptors S:  ("p", i, lo, hi)  sub-range [lo, hi) of parameter i's slice (hi None = to the end)
                      ("l", name)       a local array / vector
                      ("bswap", S)      byte-reversed copy
Value descriptors D:  ("k", c) | ("len", S) | ("be", S) | ("le", S) | ("elem", S, D) | ("pv", i) by-value
                      parameter | ("i",) loop variable | ("bin", op, D, D) | ("res", callee, (S|D, ...)) result of a
                      tracked call | ("v",) opaque"""
import re

from .absint import FnEval, INF
from .mir import operand_local, const_int
from .ctflow import norm_name

BSWAP = re.compile(r"::(bswap32|bswap)$")


def compose(S, lo, hi):
    """Sub-range [lo, hi) (hi None = end) of slice descriptor S."""
    if S is None:
        return None
    if S[0] == "p":
        base_lo, base_hi = S[2], S[3]
        nlo = base_lo + lo if lo is not None else base_lo
        if hi is not None:
            nhi = base_lo + hi
        else:
            nhi = base_hi
        return ("p", S[1], nlo, nhi)
    if lo in (0, None) and hi is None:
        return S
    return ("sub", S, lo, hi)


class Describer:
    def __init__(self, facts, body, rets=None, ctx=None, ret_slices=None, ret_values=None):
        self.f = facts
        self.b = body
        self.ret_values = ret_values   # callable (fn id, field path) -> value descriptor at that path of a local fn's result
        self.ret_slices = ret_slices   # callable (fn id, field path) -> slice descriptor a local fn returns (callee terms)
        self.fn = body.fn
        self.ev = FnEval(facts, body, ctx)   # ctx: success-implies-length summaries (length guards made by helpers)
        self.rets = rets   # callable fn_id -> ret descriptor (in callee terms) or None

    # ---- slices ----
    def slice_of(self, op, depth=0):
        if op is None:
            return None
        if depth > 14 or op[0] not in ("cp", "mv"):
            if op[0] == "kc":
                return ("l", "const")
            return None
        pl = op[1]
        if len(pl) != 1:
            return None
        l = pl[0]
        fn = self.fn
        if l != 0 and l <= fn["argc"]:
            td = self.f.ty(fn["locals"][l][0])
            if td.get("k") in ("ref", "ptr"):
                return ("p", l, 0, None)
            return None
        d = self.b.single_def(l)
        if not d:
            return None
        if d[2] == "A":
            rv = d[3][2]
            if rv[0] in ("ref", "rawptr"):
                rp = rv[2]
                if len(rp) == 2 and rp[1] == "*":
                    return self.slice_of(["cp", [rp[0]]], depth + 1)
                if len(rp) == 1:
                    return self.local_slice(rp[0], depth + 1)
                if len(rp) == 2 and isinstance(rp[1], list) and rp[1][0] == "f":
                    # field of a call-result tuple (e.g. split_at)
                    return self.tuple_field_slice(rp[0], rp[1][1], depth + 1)
                return None
            if rv[0] == "use":
                o = rv[1]
                if o[0] in ("cp", "mv") and len(o[1]) == 2 and isinstance(o[1][1], list) and o[1][1][0] == "f":
                    r = self.tuple_field_slice(o[1][0], o[1][1][1], depth + 1)
                    if r is not None:
                        return r
                if o[0] in ("cp", "mv") and len(o[1]) >= 2:
                    r = self.call_result_slice(o[1], depth + 1)
                    if r is not None:
                        return r
                    return None
                return self.slice_of(o, depth + 1)
            if rv[0] == "cast":
                return self.slice_of(rv[2], depth + 1)
            return None
        t = d[3]
        name = t[1]["f"]
        args = t[2]
        if "ops::Index<I> for [T" in name or "ops::IndexMut<I> for [T" in name or "Vec<T, A> as core::ops::Index" in name:
            base = self.slice_of(args[0], depth + 1)
            if base is None:
                return None
            rng = self.ev.range_of(args[1])
            if rng is None:
                return ("sub", base, None, None)
            kind, a, c = rng

            def ex(iv):
                return int(iv[0]) if iv is not None and iv[0] == iv[1] and iv[0] != INF else None
            if kind == "full":
                return base
            if kind == "range":
                lo, hi = ex(a), ex(c)
                if lo is None or hi is None:
                    pr = self.param_relative_range(args[1])
                    if pr is not None:
                        return ("subp", base, pr[0], pr[1], pr[2])
                    sv = self.symbolic_start(args[1], lo)
                    if sv is not None:
                        return ("subv", base, sv)
                    return ("sub", base, lo, hi)
                return compose(base, lo, hi)
            if kind == "from":
                lo = ex(a)
                if lo is None:
                    sv = self.symbolic_start(args[1], None)
                    if sv is not None:
                        return ("subv", base, sv)
                    return ("sub", base, None, None)
                # close the range when the length of the base is known exactly at this point
                L = self.ev.at_block(d[0]).slice_len(args[0], d[0])
                if L is not None and L[0] == L[1] and L[0] != INF and base[0] == "p" and base[2] == 0 and base[3] is None:
                    return compose(base, lo, int(L[0]))
                return compose(base, lo, None)
            if kind in ("to", "toinc"):
                hi = ex(c)
                if hi is None:
                    return ("subv", base, ("k", 0))      # a prefix of unknown length: elements keep their index
                if False:
                    return ("sub", base, 0, None)
                return compose(base, 0, hi + (1 if kind == "toinc" else 0))
        if name.endswith("::as_ref") or "Deref>::deref" in name or name.endswith("try_from") \
                or name.endswith("::unwrap") or name.endswith("::expect") or name.endswith("::as_slice"):
            return self.slice_of(args[0], depth + 1)
        if t[1]["l"] and BSWAP.search(norm_name(name)):
            s = self.slice_of(args[0], depth + 1)
            return ("bswap", s) if s else None
        return None

    def symbolic_start(self, rop, lo):
        """value descriptor of the start of a range operand whose bounds are not constants (`s[rlen..]`, `s[a..b]`)"""
        if lo is not None:
            return ("k", lo)
        ro = self.ev.range_operands(rop)
        if ro is None:
            # `s[a..]`: a RangeFrom aggregate (one field)
            l = operand_local(rop)
            for _ in range(4):
                d = self.b.single_def(l) if l is not None else None
                if d and d[2] == "A" and d[3][2][0] == "use" and d[3][2][1][0] in ("cp", "mv") and len(d[3][2][1][1]) == 1:
                    l = d[3][2][1][1][0]
                else:
                    break
            d = self.b.single_def(l) if l is not None else None
            if d and d[2] == "A" and d[3][2][0] == "agg" and d[3][2][1].get("path", "").endswith("ops::RangeFrom") and d[3][2][2]:
                ro = ("from", d[3][2][2][0], None)
        if ro is None or ro[1] is None:
            return None
        D = self.value_of(ro[1])
        if D is None or D == ("v",):
            return None
        return D

    def param_offset(self, op):
        """(j, c) when the integer operand is `by-value parameter j + c` (c >= 0)."""
        lf = self.ev.linform(self.ev.expr_key(op, []))
        if lf is None or len(lf[0]) != 1 or lf[1] < 0:
            return None
        (atom, coeff), = lf[0].items()
        if coeff != 1 or atom[0] != "l" or not (0 < atom[1] <= self.fn["argc"]):
            return None
        if self.f.ty(self.fn["locals"][atom[1]][0]).get("k") != "uint":
            return None
        return atom[1], int(lf[1])

    def param_relative_range(self, rop):
        """(j, lo_c, hi_c) for a range `off + lo_c .. off + hi_c` whose bounds are one by-value parameter plus constants."""
        ro = self.ev.range_operands(rop)
        if ro is None:
            return None
        a, c = self.param_offset(ro[1]), self.param_offset(ro[2])
        if a is None or c is None or a[0] != c[0] or c[1] < a[1]:
            return None
        return a[0], a[1], c[1]

    def call_result_slice(self, pl, depth, want_value=False):
        """slice held in a component of a local function's result: `(split(sig) as Some).0.1`, `split(sig).0` ...
        (want_value: an integer component instead, `(header(sig) as Some).0.0`)"""
        if (self.ret_values if want_value else self.ret_slices) is None:
            return None
        root = pl[0]
        path = []
        for e in pl[1:]:
            if e == "*":
                continue
            if e[0] == "d":
                path.append(("v", e[1]))
            elif e[0] == "f":
                path.append(("f", e[1]))
            else:
                return None
        # the root may itself be a copy of / a field of the call result
        for _ in range(6):
            d = self.b.single_def(root)
            if not d:
                return None
            if d[2] == "call":
                break
            if d[2] == "A" and d[3][2][0] == "use" and d[3][2][1][0] in ("cp", "mv"):
                src = d[3][2][1][1]
                pre = []
                for e in src[1:]:
                    if e == "*":
                        continue
                    if e[0] == "d":
                        pre.append(("v", e[1]))
                    elif e[0] == "f":
                        pre.append(("f", e[1]))
                    else:
                        return None
                path = pre + path
                root = src[0]
                continue
            return None
        else:
            return None
        t = d[3]
        if not t[1].get("l"):
            return None
        if want_value:
            V = self.ret_values(t[1]["id"], tuple(path)) if self.ret_values is not None else None
            if V is None:
                return None
            return self.subst_value(V, t[2], depth)
        S = self.ret_slices(t[1]["id"], tuple(path))
        if S is None:
            return None
        return self.subst_slice(S, t[2], depth)

    def returned_value(self, path):
        """like returned_slice, for an integer held at `path` of the result (`Some((q, ty))`)"""
        found = None
        for d in self.b.defs().get(0, []):
            if d[2] != "A":
                continue
            rv = d[3][2]
            p = list(path)
            if rv[0] == "agg" and rv[1].get("k") == "adt" and p and p[0][0] == "v":
                if rv[1].get("variant") != p[0][1]:
                    continue
                p = p[1:]
                if not p or p[0] != ("f", 0) or not rv[2]:
                    continue
                p = p[1:]
                op = rv[2][0]
            elif rv[0] == "use":
                op = rv[1]
            else:
                continue
            V = self._value_at(op, p, 0)
            if V is None:
                return None
            if found is not None and found != V:
                return None
            found = V
        return found

    def _value_at(self, op, p, depth):
        if depth > 8 or op[0] not in ("cp", "mv"):
            return self.value_of(op) if not p else None
        if not p:
            return self.value_of(op, depth + 1)
        if len(op[1]) != 1:
            return None
        if p[0][0] == "f":
            d = self.b.single_def(op[1][0])
            if d and d[2] == "A" and d[3][2][0] == "agg" and p[0][1] < len(d[3][2][2]):
                return self._value_at(d[3][2][2][p[0][1]], p[1:], depth + 1)
        return None

    def returned_slice(self, path):
        """descriptor (own parameter terms) of the slice this function returns at `path` of its result, when every
        returning assignment agrees: path elements ('v', variant) / ('f', field)."""
        found = None
        for d in self.b.defs().get(0, []):
            if d[2] != "A":
                continue
            rv = d[3][2]
            cur = ("rv", rv)
            ok = True
            p = list(path)
            # Option::None etc.: a variant other than the requested one contributes nothing
            if rv[0] == "agg" and rv[1].get("k") == "adt" and p and p[0][0] == "v":
                if rv[1].get("variant") != p[0][1]:
                    continue
                p = p[1:]
                if not p or p[0] != ("f", 0) or not rv[2]:
                    continue
                p = p[1:]
                op = rv[2][0]
            elif rv[0] == "use":
                op = rv[1]
            else:
                continue
            S = self._slice_at(op, p, 0)
            if S is None:
                return None
            if found is not None and found != S:
                return None
            found = S
        return found

    def _slice_at(self, op, p, depth):
        if depth > 8 or op[0] not in ("cp", "mv"):
            return None
        if not p:
            return self.slice_of(op, depth + 1)
        if len(op[1]) != 1:
            return None
        l = op[1][0]
        if p[0][0] == "f":
            d = self.b.single_def(l)
            if d and d[2] == "A" and d[3][2][0] == "agg" and p[0][1] < len(d[3][2][2]):
                return self._slice_at(d[3][2][2][p[0][1]], p[1:], depth + 1)
            if len(p) == 1:
                return self.tuple_field_slice(l, p[0][1], depth + 1)
        return None

    def tuple_field_slice(self, l, fld, depth):
        d = self.b.single_def(l)
        if d and d[2] == "A" and d[3][2][0] == "agg" and fld < len(d[3][2][2]):
            return self.slice_of(d[3][2][2][fld], depth + 1)
        if d and d[2] == "A" and d[3][2][0] == "use" and d[3][2][1][0] in ("cp", "mv") and len(d[3][2][1][1]) == 1:
            return self.tuple_field_slice(d[3][2][1][1][0], fld, depth + 1)
        if d and d[2] == "call" and (d[3][1]["f"].endswith("::split_at") or d[3][1]["f"].endswith("::split_at_mut")):
            base = self.slice_of(d[3][2][0], depth + 1)
            mid = self.ev.op_ival(d[3][2][1])
            if base is not None and not (mid is not None and mid[0] == mid[1]):
                if fld == 0:
                    return ("subv", base, ("k", 0))
                D = self.value_of(d[3][2][1], depth + 1)
                return ("subv", base, D) if D is not None and D != ("v",) else None
            if base is not None and mid is not None and mid[0] == mid[1]:
                k = int(mid[0])
                if fld == 0:
                    return compose(base, 0, k)
                # close the upper half when the length of the base is known exactly at this point
                L = self.ev.at_block(d[0]).slice_len(d[3][2][0], d[0])
                if L is not None and L[0] == L[1] and L[0] != INF and base[0] == "p" and base[2] == 0 and base[3] is None:
                    return compose(base, k, int(L[0]))
                return compose(base, k, None)
        return None

    def local_slice(self, l, depth):
        n = self.fn["locals"][l][1]
        d = self.b.single_def(l)
        if d and d[2] == "call":
            nm = d[3][1]["f"]
            if d[3][1]["l"] and BSWAP.search(norm_name(nm)):
                s = self.slice_of(d[3][2][0], depth + 1)
                if s:
                    return ("bswap", s)
        if d and d[2] == "A" and d[3][2][0] == "use" and d[3][2][1][0] in ("cp", "mv"):
            src = d[3][2][1][1]
            if len(src) == 2 and src[1] == "*":
                s = self.slice_of(["cp", [src[0]]], depth + 1)
                if s:
                    return s
        return ("l", n or "_%d" % l)

    # ---- values ----
    def value_of(self, op, depth=0):
        if op is None:
            return None
        c = const_int(op)
        if c is not None:
            return ("k", c)
        if depth > 14 or op[0] not in ("cp", "mv"):
            return None
        pl = op[1]
        fn = self.fn
        # element reads
        if len(pl) == 3 and pl[1] == "*" and isinstance(pl[2], list) and pl[2][0] in ("i", "c"):
            s = self.slice_of(["cp", [pl[0]]], depth + 1)
            if s is None:
                return None
            if pl[2][0] == "c":
                idx = ("k", pl[2][1])
            else:
                idx = self.value_of(["cp", [pl[2][1]]], depth + 1) or ("v",)
            return norm_elem(s, idx)
        if len(pl) == 2 and isinstance(pl[1], list) and pl[1][0] == "i":
            s = self.local_slice(pl[0], depth + 1)
            idx = self.value_of(["cp", [pl[1][1]]], depth + 1) or ("v",)
            return norm_elem(s, idx)
        if len(pl) == 2 and pl[1] == "*" and pl[0] != 0 and pl[0] <= fn["argc"]:
            # `*p` of a `&u8` / `&u32` parameter (closure items `|&b| ..`): the value the parameter stands for
            td = self.f.ty(fn["locals"][pl[0]][0])
            if td.get("k") in ("ref", "ptr") and self.f.ty(td["to"]).get("k") in ("uint", "int", "bool"):
                return ("pv", pl[0])
            return None
        if len(pl) >= 2 and all(isinstance(e, list) and e[0] in ("d", "f") for e in pl[1:]) and self.ret_values is not None:
            r = self.call_result_slice(pl, depth + 1, want_value=True)
            if r is not None:
                return r
        if len(pl) != 1:
            return None
        l = pl[0]
        if l != 0 and l <= fn["argc"]:
            td = self.f.ty(fn["locals"][l][0])
            if td.get("k") in ("uint", "int", "bool"):
                return ("pv", l)
            return None
        it = self.iterated_slice(l, depth + 1)
        if it is not None:
            return it
        iv = self.ev.ival(l)
        if iv is not None and iv[0] == iv[1] and iv[0] != INF:
            return ("k", int(iv[0]))
        d = self.b.single_def(l)
        if not d:
            return None
        if d[2] == "A":
            rv = d[3][2]
            if rv[0] == "use":
                o = rv[1]
                if o[0] in ("cp", "mv") and len(o[1]) == 3 and isinstance(o[1][1], list) and o[1][1][0] == "d":
                    r = self.value_of(o, depth + 1)
                    return r if r is not None else ("i",)
                return self.value_of(o, depth + 1)
            if rv[0] == "cast" and rv[1] == "IntToInt":
                return self.value_of(rv[2], depth + 1)
            if rv[0] == "un" and rv[1] == "PtrMetadata":
                s = self.slice_of(rv[2], depth + 1)
                return ("len", s) if s else None
            if rv[0] == "bin" and rv[1] in ("Add", "Sub", "Mul", "BitAnd", "BitOr", "Shr", "Shl", "Rem", "Div", "AddUnchecked", "SubUnchecked", "MulUnchecked"):
                a, b_ = self.value_of(rv[2], depth + 1), self.value_of(rv[3], depth + 1)
                if a is None or b_ is None:
                    return None
                return ("bin", rv[1].replace("Unchecked", ""), a, b_)
            return None
        t = d[3]
        name = t[1]["f"]
        args = t[2]
        if name.endswith("::len") and ("slice" in name or "Vec" in name or "str" in name):
            s = self.slice_of(args[0], depth + 1)
            return ("len", s) if s else None
        if (name.startswith("core::cmp::min") or name.startswith("core::cmp::max") or (("::min" in name[-6:] or "::max" in name[-6:]) and "cmp" in name)) \
                and len(args) == 2:
            a, b_ = self.value_of(args[0], depth + 1), self.value_of(args[1], depth + 1)
            if a is None or b_ is None:
                return None
            return ("bin", "Min" if name.endswith("min") else "Max", a, b_)
        m = re.search(r"::from_(be|le)_bytes$", name)
        if m:
            a = args[0]
            if a[0] in ("cp", "mv") and len(a[1]) == 1:
                dd = self.b.single_def(a[1][0])
                if dd and dd[2] == "A" and dd[3][2][0] == "agg" and dd[3][2][1].get("k") == "array" and dd[3][2][2]:
                    # `[buf[o], buf[o + 1], buf[o + 2], buf[o + 3]]`: consecutive elements of one slice
                    S = self.consecutive_elems([self.value_of(o, depth + 1) for o in dd[3][2][2]])
                    if S is not None:
                        return (m.group(1), S)
                    return None
                if dd and dd[2] == "A" and dd[3][2][0] == "use":
                    src = dd[3][2][1]
                    if src[0] in ("cp", "mv") and len(src[1]) == 2 and src[1][1] == "*":
                        s = self.slice_of(["cp", [src[1][0]]], depth + 1)
                        if s:
                            return (m.group(1), s)
            return None
        if t[1]["l"] and self.rets is not None:
            rd = self.rets(t[1]["id"])
            if rd is not None:
                return self.subst_value(rd, args, depth + 1)
        return None

    @staticmethod
    def _split_index(D):
        """index descriptor -> (symbolic part or None, constant part)"""
        if D is None:
            return None
        if D[0] == "k":
            return (None, D[1])
        if D[0] == "bin" and D[1] == "Add" and D[3][0] == "k":
            return (D[2], D[3][1])
        if D[0] == "bin" and D[1] == "Add" and D[2][0] == "k":
            return (D[3], D[2][1])
        return (D, 0)

    def consecutive_elems(self, ds):
        """slice descriptor for a list of element descriptors elem(S, i0), elem(S, i0 + 1), ... of one slice S"""
        if not ds or any(d is None or d[0] != "elem" for d in ds):
            return None
        S = ds[0][1]
        first = self._split_index(ds[0][2])
        if first is None:
            return None
        for k, d in enumerate(ds):
            sp = self._split_index(d[2])
            if d[1] != S or sp is None or sp[0] != first[0] or sp[1] != first[1] + k:
                return None
        n = len(ds)
        if first[0] is None:
            return compose(S, first[1], first[1] + n)
        if first[0][0] == "pv":
            return ("subp", S, first[0][1], first[1], first[1] + n)
        return None

    def field_of(self, op, depth=0):
        """("fld", param, (field names..)) when the operand is (a copy of / a reference to) a field path of a parameter,
        or the parameter itself (empty path)"""
        if op is None or depth > 10 or op[0] not in ("cp", "mv"):
            return None
        pl = op[1]
        root = pl[0]
        names = []
        tid = self.fn["locals"][root][0]
        for e in pl[1:]:
            td = self.f.ty(tid)
            if e == "*":
                if td.get("k") in ("ref", "ptr"):
                    tid = td["to"]
                continue
            if e[0] != "f":
                return None
            while td.get("k") in ("ref", "ptr"):
                tid = td["to"]
                td = self.f.ty(tid)
            if td.get("k") != "adt" or not td.get("variants") or e[1] >= len(td["variants"][0][2]):
                return None
            names.append(str(td["variants"][0][2][e[1]][0]))
            tid = td["variants"][0][2][e[1]][1]
        if root != 0 and root <= self.fn["argc"]:
            return ("fld", root, tuple(names))
        d = self.b.single_def(root)
        if not d or d[2] != "A":
            return None
        rv = d[3][2]
        src = None
        if rv[0] in ("ref", "rawptr"):
            src = ["cp", rv[2]]
        elif rv[0] == "use" and rv[1][0] in ("cp", "mv"):
            src = rv[1]
        if src is None:
            return None
        base = self.field_of(src, depth + 1)
        if base is None:
            return None
        return ("fld", base[1], base[2] + tuple(names))

    def iterated_slice(self, l, depth=0):
        """for a local that is an iterator over a slice (`s.iter()`, possibly `.rev()` / by reference): the generic item
        `s[i]`; used when a closure handed to all / any / for_each / position is re-expressed at the call site"""
        if depth > 10:
            return None
        ts = self.f.ty(self.fn["locals"][l][0])
        if ts.get("k") in ("ref", "ptr"):
            ts = self.f.ty(ts["to"])
        s_ = ts.get("s", "")
        if not ("slice::Iter" in s_ or "slice::iter::Iter" in s_ or "iter::Rev<" in s_ or "Copied<" in s_ or "Cloned<" in s_):
            return None
        d = self.b.single_def(l)
        if not d:
            return None
        if d[2] == "A":
            rv = d[3][2]
            if rv[0] in ("ref", "rawptr") and len(rv[2]) == 1:
                return self.iterated_slice(rv[2][0], depth + 1)
            if rv[0] == "use" and rv[1][0] in ("cp", "mv") and len(rv[1][1]) == 1:
                return self.iterated_slice(rv[1][1][0], depth + 1)
            return None
        nm = d[3][1]["f"]
        args = d[3][2]
        last = nm.rsplit("::", 1)[-1]
        if last in ("iter", "iter_mut") and args:
            S = self.slice_of(args[0], depth + 1)
            return norm_elem(S, ("i",)) if S is not None else None
        if last in ("into_iter", "rev", "copied", "cloned", "by_ref") and args and args[0][0] in ("cp", "mv") and len(args[0][1]) == 1:
            return self.iterated_slice(args[0][1][0], depth + 1)
        return None

    # ---- substitution of a callee-relative descriptor into this function's terms ----
    def subst_slice(self, S, args, depth=0):
        if S is None:
            return None
        if S[0] == "p":
            i = S[1] - 1
            if i >= len(args):
                return None
            base = self.slice_of(args[i], depth)
            if base is None:
                return ("l", "?")
            if S[2] == 0 and S[3] is None:
                return base
            return compose(base, S[2], S[3])
        if S[0] == "bswap":
            s = self.subst_slice(S[1], args, depth)
            return ("bswap", s) if s else None
        if S[0] == "sub":
            s = self.subst_slice(S[1], args, depth)
            return ("sub", s, S[2], S[3]) if s else None
        if S[0] == "subv":
            s = self.subst_slice(S[1], args, depth)
            D = self.subst_value(S[2], args, depth)
            return ("subv", s, D) if s is not None and D is not None else None
        if S[0] == "subp":
            s = self.subst_slice(S[1], args, depth)
            j = S[2] - 1
            if s is None or j >= len(args):
                return None
            iv = self.ev.op_ival(args[j])
            if iv is not None and iv[0] == iv[1] and iv[0] != INF:
                return compose(s, int(iv[0]) + S[3], int(iv[0]) + S[4])
            po = self.param_offset(args[j])
            if po is not None:
                return ("subp", s, po[0], po[1] + S[3], po[1] + S[4])
            return ("sub", s, None, None)
        return S

    def subst_value(self, D, args, depth=0):
        if D is None:
            return None
        t = D[0]
        if t in ("k", "i", "v"):
            return D
        if t in ("len", "be", "le"):
            s = self.subst_slice(D[1], args, depth)
            return (t, s) if s else None
        if t == "elem":
            s = self.subst_slice(D[1], args, depth)
            i = self.subst_value(D[2], args, depth)
            return norm_elem(s, i or ("v",)) if s else None
        if t == "pv":
            i = D[1] - 1
            if i >= len(args):
                return None
            return self.value_of(args[i], depth)
        if t == "bin":
            a, b_ = self.subst_value(D[2], args, depth), self.subst_value(D[3], args, depth)
            if a is None or b_ is None:
                return None
            return ("bin", D[1], a, b_)
        if t == "fld":
            i = D[1] - 1
            if i >= len(args):
                return None
            base = self.field_of(args[i], depth + 1)
            if base is None:
                return ("v",)
            return ("fld", base[1], base[2] + D[2])
        if t == "res":
            na = []
            for x in D[2]:
                if x is None:
                    na.append(None)
                elif x[0] in ("p", "l", "bswap", "sub", "subp", "subv"):
                    na.append(self.subst_slice(x, args, depth))
                else:
                    na.append(self.subst_value(x, args, depth))
            return ("res", D[1], tuple(na))
        return D


def pname(fn, i):
    """parameters are named by position in rendered facts (p1 = self / first parameter): renaming a parameter must not
    change what a fact says"""
    return "p%d" % i


def norm_elem(s, idx):
    if s is None:
        return None
    if s[0] == "subv":
        # element i of `base[start..]` is element start + i of base
        if s[2] == ("k", 0):
            return norm_elem(s[1], idx)
        if idx == ("k", 0):
            return norm_elem(s[1], s[2])
        if s[2][0] == "k" and idx[0] == "k":
            return norm_elem(s[1], ("k", s[2][1] + idx[1]))
        return norm_elem(s[1], ("bin", "Add", s[2], idx))
    if s[0] == "p" and idx[0] == "k":
        return ("elem", ("p", s[1], 0, None), ("k", s[2] + idx[1]))
    return ("elem", s, idx)


def param_rooted(S):
    if S is None:
        return False
    if S[0] == "p":
        return True
    if S[0] in ("bswap", "sub", "subp", "subv"):
        return param_rooted(S[1])
    return False


def mentions_input(D):
    """The value is a function of parameter data / lengths (worth recording as a check fact)."""
    if D is None:
        return False
    t = D[0]
    if t in ("len", "be", "le"):
        return param_rooted(D[1])
    if t == "elem":
        return param_rooted(D[1])
    if t == "pv":
        return True
    if t == "bin":
        return mentions_input(D[2]) or mentions_input(D[3])
    return False


def render_slice(S, fn):
    if S is None:
        return "?"
    if S[0] == "p":
        n = pname(fn, S[1])
        if S[2] == 0 and S[3] is None:
            return n
        if S[3] is None:
            return "%s[%d..]" % (n, S[2])
        return "%s[%d..%d]" % (n, S[2], S[3])
    if S[0] == "l":
        return "local:" + str(S[1])
    if S[0] == "bswap":
        return "bswap(%s)" % render_slice(S[1], fn)
    if S[0] == "sub":
        return "%s[%s..%s]" % (render_slice(S[1], fn), "?" if S[2] is None else S[2], "?" if S[3] is None else S[3])
    if S[0] == "subv":
        return "%s[%s..]" % (render_slice(S[1], fn), render_value(S[2], fn))
    if S[0] == "subp":
        n = pname(fn, S[2])
        return "%s[%s+%d..%s+%d]" % (render_slice(S[1], fn), n, S[3], n, S[4])
    return "?"


def render_value(D, fn):
    if D is None:
        return "?"
    t = D[0]
    if t == "k":
        return str(D[1])
    if t == "len":
        return "len(%s)" % render_slice(D[1], fn)
    if t in ("be", "le"):
        return "%s(%s)" % (t, render_slice(D[1], fn))
    if t == "elem":
        return "%s[%s]" % (render_slice(D[1], fn), render_value(D[2], fn))
    if t == "pv":
        return pname(fn, D[1])
    if t == "i":
        return "i"
    if t == "bin":
        return "(%s %s %s)" % (render_value(D[2], fn), D[1], render_value(D[3], fn))
    if t == "res":
        return "res:%s(%s)" % (D[1], ",".join(render_arg(x, fn) for x in D[2] if x is not None))
    if t == "fld":
        return "%s.%s" % (pname(fn, D[1]), ".".join(D[2]))
    return "v"


def render_arg(x, fn):
    if x is None:
        return "?"
    if x[0] == "parg":
        return "p%d" % x[1]
    if x[0] in ("p", "l", "bswap", "sub", "subp", "subv"):
        return render_slice(x, fn)
    return render_value(x, fn)
