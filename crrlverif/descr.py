"""Symbolic descriptors of slices and integer values relative to a function's parameters.

Used by gates to name *what a check is about* independently of where in the call tree the check is written:
a descriptor computed inside a helper is re-expressed in the caller's terms when the helper's summary is
applied, so extracting `fn check_len(buf)` or `fn dec32be(b: &[u8])` does not change the facts seen at the
public entry point.

Slice descriptors S:  ("p", i, lo, hi)  sub-range [lo, hi) of parameter i's slice (hi None = to the end)
                      ("l", name)       a local array / vector
                      ("bswap", S)      byte-reversed copy
Value descriptors D:  ("k", c) | ("len", S) | ("be", S) | ("le", S) | ("elem", S, D) | ("pv", i) by-value
                      parameter | ("i",) loop variable | ("bin", op, D, D) | ("res", callee, (S|D, ...)) result of a
                      tracked call | ("v",) opaque"""
import re

from .absint import FnEval, INF
from .mir import operand_local, const_int
from .ctflow import norm_name

BSWAP = re.compile(r"::(bswap32|bswap)$")


def compose(S, lo, hi):
    """Sub-range [lo, hi) (hi None = end) of slice descriptor S."""
    if S is None:
        return None
    if S[0] == "p":
        base_lo, base_hi = S[2], S[3]
        nlo = base_lo + lo if lo is not None else base_lo
        if hi is not None:
            nhi = base_lo + hi
        else:
            nhi = base_hi
        return ("p", S[1], nlo, nhi)
    if lo in (0, None) and hi is None:
        return S
    return ("sub", S, lo, hi)


class Describer:
    def __init__(self, facts, body, rets=None, ctx=None):
        self.f = facts
        self.b = body
        self.fn = body.fn
        self.ev = FnEval(facts, body, ctx)   # ctx: success-implies-length summaries (length guards made by helpers)
        self.rets = rets   # callable fn_id -> ret descriptor (in callee terms) or None

    # ---- slices ----
    def slice_of(self, op, depth=0):
        if depth > 14 or op[0] not in ("cp", "mv"):
            if op[0] == "kc":
                return ("l", "const")
            return None
        pl = op[1]
        if len(pl) != 1:
            return None
        l = pl[0]
        fn = self.fn
        if l != 0 and l <= fn["argc"]:
            td = self.f.ty(fn["locals"][l][0])
            if td.get("k") in ("ref", "ptr"):
                return ("p", l, 0, None)
            return None
        d = self.b.single_def(l)
        if not d:
            return None
        if d[2] == "A":
            rv = d[3][2]
            if rv[0] in ("ref", "rawptr"):
                rp = rv[2]
                if len(rp) == 2 and rp[1] == "*":
                    return self.slice_of(["cp", [rp[0]]], depth + 1)
                if len(rp) == 1:
                    return self.local_slice(rp[0], depth + 1)
                if len(rp) == 2 and isinstance(rp[1], list) and rp[1][0] == "f":
                    # field of a call-result tuple (e.g. split_at)
                    return self.tuple_field_slice(rp[0], rp[1][1], depth + 1)
                return None
            if rv[0] == "use":
                o = rv[1]
                if o[0] in ("cp", "mv") and len(o[1]) == 2 and isinstance(o[1][1], list) and o[1][1][0] == "f":
                    return self.tuple_field_slice(o[1][0], o[1][1][1], depth + 1)
                return self.slice_of(o, depth + 1)
            if rv[0] == "cast":
                return self.slice_of(rv[2], depth + 1)
            return None
        t = d[3]
        name = t[1]["f"]
        args = t[2]
        if "ops::Index<I> for [T" in name or "ops::IndexMut<I> for [T" in name or "Vec<T, A> as core::ops::Index" in name:
            base = self.slice_of(args[0], depth + 1)
            if base is None:
                return None
            rng = self.ev.range_of(args[1])
            if rng is None:
                return ("sub", base, None, None)
            kind, a, c = rng

            def ex(iv):
                return int(iv[0]) if iv is not None and iv[0] == iv[1] and iv[0] != INF else None
            if kind == "full":
                return base
            if kind == "range":
                lo, hi = ex(a), ex(c)
                if lo is None or hi is None:
                    pr = self.param_relative_range(args[1])
                    if pr is not None:
                        return ("subp", base, pr[0], pr[1], pr[2])
                    return ("sub", base, lo, hi)
                return compose(base, lo, hi)
            if kind == "from":
                lo = ex(a)
                if lo is None:
                    return ("sub", base, None, None)
                # close the range when the length of the base is known exactly at this point
                L = self.ev.at_block(d[0]).slice_len(args[0], d[0])
                if L is not None and L[0] == L[1] and L[0] != INF and base[0] == "p" and base[2] == 0 and base[3] is None:
                    return compose(base, lo, int(L[0]))
                return compose(base, lo, None)
            if kind in ("to", "toinc"):
                hi = ex(c)
                if hi is None:
                    return ("sub", base, 0, None)
                return compose(base, 0, hi + (1 if kind == "toinc" else 0))
        if name.endswith("::as_ref") or "Deref>::deref" in name or name.endswith("try_from") \
                or name.endswith("::unwrap") or name.endswith("::expect") or name.endswith("::as_slice"):
            return self.slice_of(args[0], depth + 1)
        if t[1]["l"] and BSWAP.search(norm_name(name)):
            s = self.slice_of(args[0], depth + 1)
            return ("bswap", s) if s else None
        return None

    def param_offset(self, op):
        """(j, c) when the integer operand is `by-value parameter j + c` (c >= 0)."""
        lf = self.ev.linform(self.ev.expr_key(op, []))
        if lf is None or len(lf[0]) != 1 or lf[1] < 0:
            return None
        (atom, coeff), = lf[0].items()
        if coeff != 1 or atom[0] != "l" or not (0 < atom[1] <= self.fn["argc"]):
            return None
        if self.f.ty(self.fn["locals"][atom[1]][0]).get("k") != "uint":
            return None
        return atom[1], int(lf[1])

    def param_relative_range(self, rop):
        """(j, lo_c, hi_c) for a range `off + lo_c .. off + hi_c` whose bounds are one by-value parameter plus constants."""
        ro = self.ev.range_operands(rop)
        if ro is None:
            return None
        a, c = self.param_offset(ro[1]), self.param_offset(ro[2])
        if a is None or c is None or a[0] != c[0] or c[1] < a[1]:
            return None
        return a[0], a[1], c[1]

    def tuple_field_slice(self, l, fld, depth):
        d = self.b.single_def(l)
        if d and d[2] == "A" and d[3][2][0] == "agg" and fld < len(d[3][2][2]):
            return self.slice_of(d[3][2][2][fld], depth + 1)
        if d and d[2] == "A" and d[3][2][0] == "use" and d[3][2][1][0] in ("cp", "mv") and len(d[3][2][1][1]) == 1:
            return self.tuple_field_slice(d[3][2][1][1][0], fld, depth + 1)
        if d and d[2] == "call" and (d[3][1]["f"].endswith("::split_at") or d[3][1]["f"].endswith("::split_at_mut")):
            base = self.slice_of(d[3][2][0], depth + 1)
            mid = self.ev.op_ival(d[3][2][1])
            if base is not None and mid is not None and mid[0] == mid[1]:
                k = int(mid[0])
                if fld == 0:
                    return compose(base, 0, k)
                # close the upper half when the length of the base is known exactly at this point
                L = self.ev.at_block(d[0]).slice_len(d[3][2][0], d[0])
                if L is not None and L[0] == L[1] and L[0] != INF and base[0] == "p" and base[2] == 0 and base[3] is None:
                    return compose(base, k, int(L[0]))
                return compose(base, k, None)
        return None

    def local_slice(self, l, depth):
        n = self.fn["locals"][l][1]
        d = self.b.single_def(l)
        if d and d[2] == "call":
            nm = d[3][1]["f"]
            if d[3][1]["l"] and BSWAP.search(norm_name(nm)):
                s = self.slice_of(d[3][2][0], depth + 1)
                if s:
                    return ("bswap", s)
        if d and d[2] == "A" and d[3][2][0] == "use" and d[3][2][1][0] in ("cp", "mv"):
            src = d[3][2][1][1]
            if len(src) == 2 and src[1] == "*":
                s = self.slice_of(["cp", [src[0]]], depth + 1)
                if s:
                    return s
        return ("l", n or "_%d" % l)

    # ---- values ----
    def value_of(self, op, depth=0):
        c = const_int(op)
        if c is not None:
            return ("k", c)
        if depth > 14 or op[0] not in ("cp", "mv"):
            return None
        pl = op[1]
        fn = self.fn
        # element reads
        if len(pl) == 3 and pl[1] == "*" and isinstance(pl[2], list) and pl[2][0] in ("i", "c"):
            s = self.slice_of(["cp", [pl[0]]], depth + 1)
            if s is None:
                return None
            if pl[2][0] == "c":
                idx = ("k", pl[2][1])
            else:
                idx = self.value_of(["cp", [pl[2][1]]], depth + 1) or ("v",)
            return norm_elem(s, idx)
        if len(pl) == 2 and isinstance(pl[1], list) and pl[1][0] == "i":
            s = self.local_slice(pl[0], depth + 1)
            idx = self.value_of(["cp", [pl[1][1]]], depth + 1) or ("v",)
            return norm_elem(s, idx)
        if len(pl) != 1:
            return None
        l = pl[0]
        if l != 0 and l <= fn["argc"]:
            td = self.f.ty(fn["locals"][l][0])
            if td.get("k") in ("uint", "int", "bool"):
                return ("pv", l)
            return None
        iv = self.ev.ival(l)
        if iv is not None and iv[0] == iv[1] and iv[0] != INF:
            return ("k", int(iv[0]))
        d = self.b.single_def(l)
        if not d:
            return None
        if d[2] == "A":
            rv = d[3][2]
            if rv[0] == "use":
                o = rv[1]
                if o[0] in ("cp", "mv") and len(o[1]) == 3 and isinstance(o[1][1], list) and o[1][1][0] == "d":
                    return ("i",)
                return self.value_of(o, depth + 1)
            if rv[0] == "cast" and rv[1] == "IntToInt":
                return self.value_of(rv[2], depth + 1)
            if rv[0] == "un" and rv[1] == "PtrMetadata":
                s = self.slice_of(rv[2], depth + 1)
                return ("len", s) if s else None
            if rv[0] == "bin" and rv[1] in ("Add", "Sub", "Mul", "BitAnd", "BitOr", "Shr", "Shl", "Rem", "Div", "AddUnchecked", "SubUnchecked", "MulUnchecked"):
                a, b_ = self.value_of(rv[2], depth + 1), self.value_of(rv[3], depth + 1)
                if a is None or b_ is None:
                    return None
                return ("bin", rv[1].replace("Unchecked", ""), a, b_)
            return None
        t = d[3]
        name = t[1]["f"]
        args = t[2]
        if name.endswith("::len") and ("slice" in name or "Vec" in name or "str" in name):
            s = self.slice_of(args[0], depth + 1)
            return ("len", s) if s else None
        m = re.search(r"::from_(be|le)_bytes$", name)
        if m:
            a = args[0]
            if a[0] in ("cp", "mv") and len(a[1]) == 1:
                dd = self.b.single_def(a[1][0])
                if dd and dd[2] == "A" and dd[3][2][0] == "use":
                    src = dd[3][2][1]
                    if src[0] in ("cp", "mv") and len(src[1]) == 2 and src[1][1] == "*":
                        s = self.slice_of(["cp", [src[1][0]]], depth + 1)
                        if s:
                            return (m.group(1), s)
            return None
        if t[1]["l"] and self.rets is not None:
            rd = self.rets(t[1]["id"])
            if rd is not None:
                return self.subst_value(rd, args, depth + 1)
        return None

    # ---- substitution of a callee-relative descriptor into this function's terms ----
    def subst_slice(self, S, args, depth=0):
        if S is None:
            return None
        if S[0] == "p":
            i = S[1] - 1
            if i >= len(args):
                return None
            base = self.slice_of(args[i], depth)
            if base is None:
                return ("l", "?")
            if S[2] == 0 and S[3] is None:
                return base
            return compose(base, S[2], S[3])
        if S[0] == "bswap":
            s = self.subst_slice(S[1], args, depth)
            return ("bswap", s) if s else None
        if S[0] == "sub":
            s = self.subst_slice(S[1], args, depth)
            return ("sub", s, S[2], S[3]) if s else None
        if S[0] == "subp":
            s = self.subst_slice(S[1], args, depth)
            j = S[2] - 1
            if s is None or j >= len(args):
                return None
            iv = self.ev.op_ival(args[j])
            if iv is not None and iv[0] == iv[1] and iv[0] != INF:
                return compose(s, int(iv[0]) + S[3], int(iv[0]) + S[4])
            po = self.param_offset(args[j])
            if po is not None:
                return ("subp", s, po[0], po[1] + S[3], po[1] + S[4])
            return ("sub", s, None, None)
        return S

    def subst_value(self, D, args, depth=0):
        if D is None:
            return None
        t = D[0]
        if t in ("k", "i", "v"):
            return D
        if t in ("len", "be", "le"):
            s = self.subst_slice(D[1], args, depth)
            return (t, s) if s else None
        if t == "elem":
            s = self.subst_slice(D[1], args, depth)
            i = self.subst_value(D[2], args, depth)
            return norm_elem(s, i or ("v",)) if s else None
        if t == "pv":
            i = D[1] - 1
            if i >= len(args):
                return None
            return self.value_of(args[i], depth)
        if t == "bin":
            a, b_ = self.subst_value(D[2], args, depth), self.subst_value(D[3], args, depth)
            if a is None or b_ is None:
                return None
            return ("bin", D[1], a, b_)
        if t == "res":
            na = []
            for x in D[2]:
                if x is None:
                    na.append(None)
                elif x[0] in ("p", "l", "bswap", "sub", "subp"):
                    na.append(self.subst_slice(x, args, depth))
                else:
                    na.append(self.subst_value(x, args, depth))
            return ("res", D[1], tuple(na))
        return D


def norm_elem(s, idx):
    if s is None:
        return None
    if s[0] == "p" and idx[0] == "k":
        return ("elem", ("p", s[1], 0, None), ("k", s[2] + idx[1]))
    return ("elem", s, idx)


def param_rooted(S):
    if S is None:
        return False
    if S[0] == "p":
        return True
    if S[0] in ("bswap", "sub", "subp"):
        return param_rooted(S[1])
    return False


def mentions_input(D):
    """The value is a function of parameter data / lengths (worth recording as a check fact)."""
    if D is None:
        return False
    t = D[0]
    if t in ("len", "be", "le"):
        return param_rooted(D[1])
    if t == "elem":
        return param_rooted(D[1])
    if t == "pv":
        return True
    if t == "bin":
        return mentions_input(D[2]) or mentions_input(D[3])
    return False


def render_slice(S, fn):
    if S is None:
        return "?"
    if S[0] == "p":
        n = fn["locals"][S[1]][1] or "_%d" % S[1]
        if S[2] == 0 and S[3] is None:
            return n
        if S[3] is None:
            return "%s[%d..]" % (n, S[2])
        return "%s[%d..%d]" % (n, S[2], S[3])
    if S[0] == "l":
        return "local:" + str(S[1])
    if S[0] == "bswap":
        return "bswap(%s)" % render_slice(S[1], fn)
    if S[0] == "sub":
        return "%s[%s..%s]" % (render_slice(S[1], fn), "?" if S[2] is None else S[2], "?" if S[3] is None else S[3])
    if S[0] == "subp":
        n = fn["locals"][S[2]][1] or "_%d" % S[2]
        return "%s[%s+%d..%s+%d]" % (render_slice(S[1], fn), n, S[3], n, S[4])
    return "?"


def render_value(D, fn):
    if D is None:
        return "?"
    t = D[0]
    if t == "k":
        return str(D[1])
    if t == "len":
        return "len(%s)" % render_slice(D[1], fn)
    if t in ("be", "le"):
        return "%s(%s)" % (t, render_slice(D[1], fn))
    if t == "elem":
        return "%s[%s]" % (render_slice(D[1], fn), render_value(D[2], fn))
    if t == "pv":
        return fn["locals"][D[1]][1] or "_%d" % D[1]
    if t == "i":
        return "i"
    if t == "bin":
        return "(%s %s %s)" % (render_value(D[2], fn), D[1], render_value(D[3], fn))
    if t == "res":
        return "res:%s(%s)" % (D[1], ",".join(render_arg(x, fn) for x in D[2] if x is not None))
    return "v"


def render_arg(x, fn):
    if x is None:
        return "?"
    if x[0] in ("p", "l", "bswap", "sub", "subp"):
        return render_slice(x, fn)
    return render_value(x, fn)
