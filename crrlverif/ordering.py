"""G14 ordering outcomes: wherever the result of a crate-local three-way comparator (a function returning
`core::cmp::Ordering`, e.g. the FROST identifier comparator `scalar_cmp_vartime`) is tested, the outcome `Equal` is either
handled on a path of its own (separately from both strict outcomes) or it rejects: from where execution continues for
`Equal`, no success value of the enclosing function is reachable.

Why this is a necessary condition of C15 / C19: the FROST list validations must accept *strictly increasing* identifiers
only; a test that lets `Equal` continue together with `Less` (`== Greater` for `!= Less`) accepts duplicated identifiers,
which breaks Lagrange interpolation and reaches the ordering assert of `derive_interpolating_value`.

How it is decided: for each direct call site and each of the three values, the following blocks are evaluated with the
result known: `PartialEq::eq / ne` against promoted `Ordering` constants, `discriminant` reads, `==`/`!=`/`!`/`|`/`&` on known
values, literal flag assignments, switches on known values; evaluation stops at the first other call, unknown switch or
return.  The three stop points give the partition of outcomes; `Equal` sharing its stop point with a strict outcome must
not reach a success block (gates.success_blocks / _reaches_any, the G12 notion).  Spelling-independent: `!= Less`,
`== Greater || == Equal`, `match`, swapped operands with `!= Greater` all give the same verdict."""
from .mir import Body, const_int, operand_local
from .report import Finding
from .ctflow import norm_name

ORD = {-1: "Less", 0: "Equal", 1: "Greater"}


def _i8(x):
    x = int(x) & 0xFF
    return x - 256 if x >= 128 else x


def comparators(facts):
    out = {}
    for fn in facts.fns.values():
        if fn["kind"] == "Closure" or not fn["file"].startswith("src/"):
            continue
        rt = facts.ty(fn["locals"][0][0])
        if rt.get("k") == "adt" and rt.get("path", "").endswith("cmp::Ordering"):
            out[fn["id"]] = fn
    return out


def simulate(facts, body, start, res, v, limit=200):
    """-> ('stop', block) where evaluation with `res` = v cannot continue deterministically, or ('ret', block); None = lost."""
    ints = {}          # local -> known int / bool
    isres = {res}      # locals holding the result
    refs = {}          # local -> ('res',) | ('const', value)
    consts = {}        # local holding a promoted constant reference -> value

    def val(op):
        c = const_int(op)
        if c is not None:
            return c
        l = operand_local(op)
        if l is None:
            return None
        if l in isres:
            return v
        return ints.get(l)

    def refval(op):
        l = operand_local(op)
        if l is None:
            return None
        r = refs.get(l)
        if r is None:
            return None
        return v if r[0] == "res" else r[1]

    bi = start
    for _ in range(limit):
        blk = body.blocks[bi]
        for s in blk["s"]:
            if s[0] != "A" or len(s[1]) != 1:
                if s[0] == "A" and s[1][0] in isres | set(ints) | set(refs):
                    return None
                continue
            d, rv = s[1][0], s[2]
            ints.pop(d, None)
            refs.pop(d, None)
            consts.pop(d, None)
            isres.discard(d) if d != res else None
            k = rv[0]
            if k == "use":
                o = rv[1]
                if o[0] == "kc" and isinstance(o[2], dict) and o[2].get("promoted") is not None and len(o[2].get("bytes", "")) == 2:
                    consts[d] = _i8(int(o[2]["bytes"], 16))
                elif o[0] in ("cp", "mv") and len(o[1]) == 1:
                    l = o[1][0]
                    if l in isres:
                        isres.add(d)
                    elif l in ints:
                        ints[d] = ints[l]
                    elif l in refs:
                        refs[d] = refs[l]
                    elif l in consts:
                        consts[d] = consts[l]
                else:
                    c = const_int(o)
                    if c is not None:
                        ints[d] = c
            elif k == "ref" and len(rv[2]) == 1 and rv[2][0] in isres:
                refs[d] = ("res",)
            elif k == "ref" and len(rv[2]) == 2 and rv[2][1] == "*" and rv[2][0] in consts:
                refs[d] = ("const", consts[rv[2][0]])
            elif k == "ref" and len(rv[2]) == 2 and rv[2][1] == "*" and rv[2][0] in refs:
                refs[d] = refs[rv[2][0]]
            elif k == "discr" and len(rv[1]) == 1 and rv[1][0] in isres:
                ints[d] = v
            elif k == "discr" and len(rv[1]) == 2 and rv[1][1] == "*" and refs.get(rv[1][0]):
                r = refs[rv[1][0]]
                ints[d] = v if r[0] == "res" else r[1]
            elif k == "bin" and rv[1] in ("Eq", "Ne", "BitAnd", "BitOr", "BitXor"):
                a, b = val(rv[2]), val(rv[3])
                if a is not None and b is not None:
                    if rv[1] in ("Eq", "Ne"):
                        e = _i8(a) == _i8(b)
                        ints[d] = int(e if rv[1] == "Eq" else not e)
                    else:
                        ints[d] = (a & b) if rv[1] == "BitAnd" else (a | b) if rv[1] == "BitOr" else (a ^ b)
            elif k == "un" and rv[1] == "Not":
                a = val(rv[2])
                if a is not None and a in (0, 1):
                    ints[d] = 1 - a
            elif k == "cast":
                a = val(rv[2])
                if a is not None:
                    ints[d] = a
        t = blk["t"]
        if t[0] == "goto":
            bi = t[1]
            continue
        if t[0] == "ret":
            return ("ret", bi)
        if t[0] == "switch":
            a = val(t[1])
            if a is None:
                return ("stop", bi)
            tgt = None
            for sv, b_ in t[2]:
                if _i8(sv) == _i8(a):
                    tgt = b_
            bi = t[3] if tgt is None else tgt
            continue
        if t[0] == "call":
            name = t[1]["f"]
            g = t[1].get("g") or []
            is_ord = (g and all("cmp::Ordering" in x for x in g)) or name.startswith("<core::cmp::Ordering as core::cmp::PartialEq>")
            if (name.endswith("::eq") or name.endswith("::ne")) and "PartialEq" in name and len(t[2]) == 2 and is_ord:
                a, b = refval(t[2][0]), refval(t[2][1])
                if a is None or b is None or len(t[3]) != 1 or t[4] is None:
                    return ("stop", bi)
                e = a == b
                ints[t[3][0]] = int(e if name.endswith("::eq") else not e)
                bi = t[4]
                continue
            return ("stop", bi)
        if t[0] == "drop":
            bi = t[2] if len(t) > 2 and isinstance(t[2], int) else None
            if bi is None:
                return None
            continue
        return ("stop", bi)
    return None


def run_ordering(facts, run, prop):
    from .gates import success_blocks, _reaches_any
    cfg = facts.config
    comps = comparators(facts)
    n_sites = n_rej = n_sep = n_und = 0
    for fn in facts.fns.values():
        if not fn["file"].startswith("src/") or fn["id"] in comps:
            continue
        body = None
        for bi, blk in enumerate(fn["blocks"]):
            t = blk["t"]
            if t[0] != "call" or t[1].get("id") not in comps or len(t[3]) != 1 or t[4] is None:
                continue
            if body is None:
                body = Body(fn)
            if bi not in body.reach:
                continue
            n_sites += 1
            stops = {v: simulate(facts, body, t[4], t[3][0], v) for v in (-1, 0, 1)}
            if any(s is None for s in stops.values()):
                n_und += 1
                run.oblige()
                continue
            eq = stops[0]
            shared = [ORD[v] for v in (-1, 1) if stops[v] == eq]
            if not shared:
                n_sep += 1
                run.oblige()
                continue
            rt = facts.ty(body.local_ty(0))
            succ = success_blocks(body)
            if rt.get("k") == "tuple" and not rt.get("elems"):
                # unit function: "success" is any normal return
                succ = set(b for b in body.reach if body.blocks[b]["t"][0] == "ret")
            rejecting = not _reaches_any(body, eq[1], succ, facts)
            run.oblige(ok=rejecting)
            if rejecting:
                n_rej += 1
                if n_rej % 5 == 1:
                    run.sample("G14 %s: outcome Equal of %s shares its continuation with %s and rejects" % (
                        fn["name"], comps[t[1]["id"]]["name"].split("::")[-1], "/".join(shared)))
            else:
                cname = comps[t[1]["id"]]["name"].split("::")[-1]
                run.add(Finding("G14", "%s|%s" % (norm_name(fn["name"]), cname),
                                "gates G14: in %s (%s:%s) the outcome Equal of %s continues together with %s and can still reach a success "
                                "value: equal keys (duplicated identifiers) are accepted where the list must be strictly ordered" % (
                                    fn["name"], fn["file"], t[5], cname, "/".join(shared)),
                                config=cfg, site="%s:%s" % (fn["file"], t[5]), prop=prop))
    run.stats = getattr(run, "stats", {})
    run.stats.update(g14_sites=n_sites, g14_equal_rejects=n_rej, g14_equal_separate=n_sep, g14_undecided=n_und)
    return n_sites, n_rej
