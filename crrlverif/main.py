import argparse
import json
import os
import sys

from . import facts as factsmod
from .report import Run


def configs_for(tier):
    if os.environ.get("CRRL_CONFIGS"):
        return os.environ["CRRL_CONFIGS"].split(",")
    return factsmod.QUICK_CONFIGS if tier == "quick" else factsmod.THOROUGH_CONFIGS


def check_C04(tier):
    from . import consttab
    run = Run("C04", tier, level="exploration")
    total = 0
    tabs = 0
    consts = 0
    cfgs = configs_for(tier)
    th = factsmod.tree_hash()
    factsmod.extract_many(cfgs, th)
    for c in cfgs:
        f = factsmod.load(c, th)
        e, t = consttab.check_tables(f, run)
        total += e
        tabs += t
        consts += consttab.check_curve_constants(f, run)
    return run.finish(
        explanation="Table clause of C04 only: every entry of every built-in precomputed generator table "
                    "(const-evaluated by rustc on the current tree) equals the multiple of the generator it stands "
                    "for, recomputed with independent affine big-integer arithmetic from the curve equations; plus "
                    "one-line identities of the curve/endomorphism constants. Recoding, windows and endomorphism "
                    "splitting (n*P for all n) are NOT decided.",
        evaluations=total + consts, distinct=total,
        rule="enumerate all entries of all PRECOMP_* statics in each build configuration; an entry is non-trivial "
             "when its expected value is a non-neutral point (all are)",
        exhaustive=True,
        extra_cov=dict(configs=cfgs, tables=tabs, table_entries=total, constants=consts))


def check_C13(tier):
    from . import consttab
    run = Run("C13", tier, level="exploration")
    cfgs = configs_for(tier)
    th = factsmod.tree_hash()
    factsmod.extract_many(cfgs, th)
    n = 0
    for c in cfgs:
        f = factsmod.load(c, th)
        n += consttab.check_uxcomp(f, run)
    return run.finish(
        explanation="Table clause of C13: all 16385 UX_COMP words equal ((u_i mod 2^48)<<16)|i for u_i the Montgomery "
                    "u-coordinate of i*2^240*B, sorted ascending with pairwise distinct top 48 bits; B227 = 2^227*B.",
        evaluations=n, distinct=max(n - 1, 0),
        rule="every word of UX_COMP; non-trivial = all but the neutral's word 0", exhaustive=True,
        extra_cov=dict(configs=cfgs))


CHECKS = {"C04": check_C04, "C13": check_C13}


def main(argv):
    ap = argparse.ArgumentParser()
    ap.add_argument("prop")
    ap.add_argument("--tier", default=os.environ.get("VERIF_TIER", "quick"))
    ap.add_argument("--explain")
    a = ap.parse_args(argv)
    if a.explain:
        print(open(a.explain).read())
        return 0
    if a.prop not in CHECKS:
        print("unknown property", a.prop)
        return 2
    return CHECKS[a.prop](a.tier)
