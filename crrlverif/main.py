import argparse
import concurrent.futures as cf
import json
import os
import sys
import time

from . import facts as factsmod
from .report import Run, Finding


def configs_for(tier, quick=None):
    if os.environ.get("CRRL_CONFIGS"):
        return os.environ["CRRL_CONFIGS"].split(",")
    if tier == "quick":
        return quick or factsmod.QUICK_CONFIGS
    return factsmod.THOROUGH_CONFIGS


class SubRun:
    """Picklable per-configuration result merged into the main Run."""

    def __init__(self):
        self.findings = []
        self.obligations = 0
        self.discharged = 0
        self.samples = []
        self.stats = {}

    def add(self, f):
        self.findings.append(f)

    def oblige(self, n=1, ok=True):
        self.obligations += n
        if ok:
            self.discharged += n

    def sample(self, s, cap=6):
        if len(self.samples) < cap:
            self.samples.append(s)


def _worker(args):
    engine, config, th, prop = args
    f = factsmod.load(config, th)
    sub = SubRun()
    t0 = time.time()
    ENGINES[engine](f, sub, prop)
    sub.stats["wall_s"] = round(time.time() - t0, 1)
    return config, sub


def run_engines(run, engines, cfgs, prop):
    """Run each engine on each configuration (process pool) and merge results into `run`."""
    th = factsmod.tree_hash()
    factsmod.extract_many(cfgs, th, jobs=min(len(cfgs), 6))
    jobs = [(e, c, th, prop) for c in cfgs for e in engines]
    stats = {}
    if len(jobs) == 1:
        results = [_worker(jobs[0])]
    else:
        with cf.ProcessPoolExecutor(max_workers=min(len(jobs), 12)) as ex:
            results = list(ex.map(_worker, jobs))
    for (e, c, _th, _p), (config, sub) in zip(jobs, results):
        for f in sub.findings:
            run.add(f)
        run.obligations += sub.obligations
        run.discharged += sub.discharged
        for s in sub.samples:
            run.sample(s, cap=16)
        stats.setdefault(c, {})[e] = sub.stats
    return stats


# ---- engine adapters: (facts, subrun, prop) ---------------------------------

def eng_tables(f, sub, prop):
    from . import consttab
    e, t = consttab.check_tables(f, sub)
    c = consttab.check_curve_constants(f, sub)
    sub.stats.update(table_entries=e, tables=t, constants=c)


def eng_uxcomp(f, sub, prop):
    from . import consttab
    n = consttab.check_uxcomp(f, sub)
    sub.stats.update(words=n)


def eng_ctflow(f, sub, prop):
    from . import ctflow
    stats, flagged, eng = ctflow.run_ctflow(f, sub, prop)
    sub.stats.update(stats)
    sub.stats["flagged_fns"] = len(flagged)


def eng_totality(f, sub, prop):
    from . import totality
    totality.run_totality(f, sub, prop)


ENGINES = {"tables": eng_tables, "uxcomp": eng_uxcomp, "ctflow": eng_ctflow, "totality": eng_totality}


# ---- properties --------------------------------------------------------------

def check_C02(tier):
    run = Run("C02", tier, level="other")
    cfgs = configs_for(tier)
    stats = run_engines(run, ["ctflow"], cfgs, "C02")
    nfn = sum(s["ctflow"].get("obligated", 0) for s in stats.values())
    nsinks = sum(s["ctflow"].get("sinks", 0) for s in stats.values())
    return run.finish(
        explanation="MIR-level clause of C02: for every externally reachable function not documented as variable-time "
                    "(name contains 'vartime' or rustdoc says 'not constant-time'), no SwitchInt discriminant, "
                    "bounds-checked index, slice range, division operand or value-reading std call is data-flow reachable "
                    "from a secret parameter/field, interprocedurally (symbolic summaries, field- and variant-sensitive "
                    "store with points-to). Secrets = everything except lengths, literals, usize/bool/&str parameters and "
                    "the reviewed tables/secrecy.json. Status-word tests in Option/bool-returning functions are the "
                    "documented declassification. NOT decided: what LLVM does to the MIR afterwards (machine code).",
        evaluations=nfn, distinct=nfn,
        rule="one obligation per (configuration, obligated public function): leaks(f) & Secret(f) = {}",
        extra_cov=dict(configs=cfgs, per_config=stats, sinks_examined=nsinks))


def check_C04(tier):
    run = Run("C04", tier, level="exploration")
    cfgs = configs_for(tier)
    stats = run_engines(run, ["tables"], cfgs, "C04")
    total = sum(s["tables"]["table_entries"] for s in stats.values())
    consts = sum(s["tables"]["constants"] for s in stats.values())
    tabs = sum(s["tables"]["tables"] for s in stats.values())
    return run.finish(
        explanation="Table clause of C04 only: every entry of every built-in precomputed generator table "
                    "(const-evaluated by rustc on the current tree) equals the multiple of the generator it stands "
                    "for, recomputed with independent affine big-integer arithmetic from the curve equations; plus "
                    "one-line identities of the curve/endomorphism constants. Recoding, windows and endomorphism "
                    "splitting (n*P for all n) are NOT decided.",
        evaluations=total + consts, distinct=total,
        rule="enumerate all entries of all PRECOMP_* statics in each build configuration; an entry is non-trivial "
             "when its expected value is a non-neutral point (all are)",
        exhaustive=True,
        extra_cov=dict(configs=cfgs, tables=tabs, table_entries=total, constants=consts, per_config=stats))


def check_C13(tier):
    run = Run("C13", tier, level="exploration")
    cfgs = configs_for(tier)
    stats = run_engines(run, ["uxcomp"], cfgs, "C13")
    n = sum(s["uxcomp"]["words"] for s in stats.values())
    return run.finish(
        explanation="Table clause of C13: all 16385 UX_COMP words equal ((u_i mod 2^48)<<16)|i for u_i the Montgomery "
                    "u-coordinate of i*2^240*B, sorted ascending with pairwise distinct top 48 bits; B227 = 2^227*B.",
        evaluations=n, distinct=max(n - 1, 0),
        rule="every word of UX_COMP; non-trivial = all but the neutral's word 0", exhaustive=True,
        extra_cov=dict(configs=cfgs, per_config=stats))


TOTALITY_TEXT = {
    "C19": "C19 clauses decided: (a) every explicit panic construct (panic!/assert!/unreachable!/unimplemented!, unwrap/expect, "
           "panicking std calls, fixed-vs-variable copy_from_slice) in functions reachable from the decode / verify / ECDH / map / "
           "hash / vartime-helper entry points is a documented precondition (rustdoc anchor re-checked), structurally impossible, or a "
           "reviewed table entry; caller-establishes-precondition rule for asserts in private helpers; (b) every index, range, "
           "copy-length, division and try_from obligation is discharged by constant folding, interval evaluation, loop-range "
           "reasoning, a dominating length guard, or a requirement met at every call site -- the residue is a frozen per-function "
           "inventory (tables/site_inventory.json) and only NEW undischarged obligations are reported. NOT decided: arithmetic "
           "safety of the inventoried sites, loop termination, debug-only overflow checks.",
    "C10": "Totality clause of C10 only ('the routines always return: they never panic'): the C19 rules scoped to the call trees of "
           "the *_add_mulgen_vartime combinations and verify_helper_vartime. Equality with the constant-time computation is numeric "
           "and NOT decided.",
    "C11": "Totality clause of C11 only ('return for every input scalar, without panicking'): the C19 rules scoped to split_vartime, "
           "split_mu, split_theta, mul_divr_rounded and the lagrange family. The split contract and termination of the lattice "
           "reductions are numeric and NOT decided.",
    "C15": "Reachable-panic discipline for FROST: the C19 rules scoped to every public function of the five frost modules, including "
           "the caller-establishes rule for the ordering assert in derive_interpolating_value.",
}


def check_totality(prop):
    def chk(tier):
        run = Run(prop, tier, level="other")
        cfgs = configs_for(tier)
        stats = run_engines(run, ["totality"], cfgs, prop)
        nsites = sum(s["totality"].get("sites", 0) for s in stats.values())
        return run.finish(
            explanation=TOTALITY_TEXT[prop],
            evaluations=nsites, distinct=run.obligations,
            rule="one obligation per potentially panicking MIR construct (assert terminator, diverging call, unwrap, "
                 "range/index call, copy_from_slice, try_from) in the live code of every function in scope",
            extra_cov=dict(configs=cfgs, per_config=stats))
    return chk


CHECKS = {"C02": check_C02, "C04": check_C04, "C13": check_C13,
          "C19": check_totality("C19"), "C10": check_totality("C10"), "C11": check_totality("C11")}


def main(argv):
    ap = argparse.ArgumentParser()
    ap.add_argument("prop")
    ap.add_argument("--tier", default=os.environ.get("VERIF_TIER", "quick"))
    ap.add_argument("--explain")
    a = ap.parse_args(argv)
    if a.explain:
        print(open(a.explain).read())
        return 0
    if a.prop not in CHECKS:
        print("unknown property", a.prop)
        return 2
    return CHECKS[a.prop](a.tier)
