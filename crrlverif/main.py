import argparse
import concurrent.futures as cf
import concurrent.futures.process
import json
import os
import sys
import time

from . import facts as factsmod
from .report import Run, Finding


def configs_for(tier, quick=None):
    if os.environ.get("CRRL_CONFIGS"):
        return os.environ["CRRL_CONFIGS"].split(",")
    if tier == "quick":
        return quick or factsmod.QUICK_CONFIGS
    return factsmod.THOROUGH_CONFIGS


class SubRun:
    """Picklable per-configuration result merged into the main Run."""

    def __init__(self):
        self.findings = []
        self.obligations = 0
        self.discharged = 0
        self.samples = []
        self.stats = {}

    def add(self, f):
        self.findings.append(f)

    def oblige(self, n=1, ok=True):
        self.obligations += n
        if ok:
            self.discharged += n

    def sample(self, s, cap=6):
        if len(self.samples) < cap:
            self.samples.append(s)


def _worker(args):
    engine, config, th, prop = args
    f = factsmod.load(config, th)
    sub = SubRun()
    t0 = time.time()
    try:
        ENGINES[engine](f, sub, prop)
    except Exception as e:      # an internal error of the analysis on an unforeseen construct
        import traceback
        tb = traceback.format_exc().strip().splitlines()
        sys.stderr.write("[%s] engine %s failed on configuration %s: %s\n  %s\n" % (prop, engine, config, e, "\n  ".join(tb[-6:])))
        # the engine decided nothing for this configuration: say so in the evidence; what it had found so far is kept
        sub.stats["engine_error"] = "%s: %s @ %s" % (type(e).__name__, e, tb[-3].strip() if len(tb) >= 3 else "")
        sub.obligations += 1
    sub.stats["wall_s"] = round(time.time() - t0, 1)
    return config, sub


def run_engines(run, engines, cfgs, prop):
    """Run each engine on each configuration (process pool) and merge results into `run`."""
    th = factsmod.tree_hash()
    factsmod.extract_many(cfgs, th, jobs=min(len(cfgs), 6))
    jobs = [(e, c, th, prop) for c in cfgs for e in engines]
    stats = {}
    if len(jobs) == 1:
        results = [_worker(jobs[0])]
    else:
        try:
            with cf.ProcessPoolExecutor(max_workers=min(len(jobs), 12)) as ex:
                results = list(ex.map(_worker, jobs))
        except cf.process.BrokenProcessPool:
            # a worker was killed (memory pressure on a loaded machine): the analysis is deterministic, redo it serially
            sys.stderr.write("[%s] worker pool broke; re-running %d jobs serially\n" % (prop, len(jobs)))
            results = [_worker(j) for j in jobs]
    for (e, c, _th, _p), (config, sub) in zip(jobs, results):
        for f in sub.findings:
            run.add(f)
        run.obligations += sub.obligations
        run.discharged += sub.discharged
        for s in sub.samples:
            run.sample(s, cap=16)
        stats.setdefault(c, {})[e] = sub.stats
    return stats


# ---- engine adapters: (facts, subrun, prop) ---------------------------------

def eng_tables(f, sub, prop):
    from . import consttab
    e, t = consttab.check_tables(f, sub)
    c = consttab.check_curve_constants(f, sub)
    sub.stats.update(table_entries=e, tables=t, constants=c)


def eng_uxcomp(f, sub, prop):
    from . import consttab
    n = consttab.check_uxcomp(f, sub)
    sub.stats.update(words=n)


def eng_ctflow(f, sub, prop):
    from . import ctflow
    stats, flagged, eng = ctflow.run_ctflow(f, sub, prop)
    sub.stats.update(stats)
    sub.stats["flagged_fns"] = len(flagged)


def eng_totality(f, sub, prop):
    from . import totality
    totality.run_totality(f, sub, prop)


def eng_gates(f, sub, prop):
    from . import gates
    gates.run_gates(f, sub, prop)


def eng_maskdom(f, sub, prop):
    from . import maskdom
    maskdom.run_maskdom(f, sub, prop, want=("K1", "K2") if prop == "C20" else ("K2",))


def eng_muxshape(f, sub, prop):
    from . import muxshape
    muxshape.run_muxshape(f, sub, prop)
    muxshape.run_lookups(f, sub, prop)


def eng_limbcov(f, sub, prop):
    from . import limbcov
    flt = limbcov.scope_filter(f, prop)
    nfull = limbcov.run_limbcov(f, sub, prop, flt)
    nret = limbcov.run_limbdeps(f, sub, prop, flt)
    limbcov.run_limbseq(f, sub, prop, flt)
    limbcov.run_widecov(f, sub, prop, flt)
    limbcov.run_slicehead(f, sub, prop, flt)
    limbcov.run_argswap(f, sub, prop, flt)
    if prop in ("C05", "C18"):
        if limbcov.run_fullwrite(f, sub, prop) < 10:
            sub.oblige(ok=False)
            sub.add(Finding("K5d", "anchor", "limbcov K5d: fewer than 10 backend decoders found", config=f.config, prop=prop))
    floor = 120 if flt is None else 20
    if nfull < floor:
        sub.oblige(ok=False)
        sub.add(Finding("K5", "anchor", "limbcov K5: only %d fully covered limb arrays found in scope (floor %d): the rule would pass vacuously" % (nfull, floor),
                        config=f.config, prop=prop))


ENGINES = {"limbcov": eng_limbcov, "muxshape": eng_muxshape, "maskdom": eng_maskdom, "gates": eng_gates, "tables": eng_tables, "uxcomp": eng_uxcomp, "ctflow": eng_ctflow, "totality": eng_totality}


# ---- properties --------------------------------------------------------------

def check_C02(tier):
    run = Run("C02", tier, level="other")
    cfgs = configs_for(tier)
    stats = run_engines(run, ["ctflow"], cfgs, "C02")
    nfn = sum(s["ctflow"].get("obligated", 0) for s in stats.values())
    nsinks = sum(s["ctflow"].get("sinks", 0) for s in stats.values())
    return run.finish(
        explanation="MIR-level clause of C02: for every externally reachable function not documented as variable-time "
                    "(name contains 'vartime' or rustdoc says 'not constant-time'), no SwitchInt discriminant, "
                    "bounds-checked index, slice range, division operand or value-reading std call is data-flow reachable "
                    "from a secret parameter/field, and no comparison operator produces a bool from a secret (the crate's arithmetic-mask "
                    "discipline: a bool computed from secret data is what LLVM turns into a branch), interprocedurally (symbolic summaries, field- and variant-sensitive "
                    "store with points-to). Secrets = everything except lengths, literals, usize/bool/&str parameters and "
                    "the reviewed tables/secrecy.json. Status-word tests in Option/bool-returning functions are the "
                    "documented declassification. NOT decided: what LLVM does to the MIR afterwards (machine code).",
        evaluations=nfn, distinct=nfn,
        rule="one obligation per (configuration, obligated public function): leaks(f) & Secret(f) = {}",
        extra_cov=dict(configs=cfgs, per_config=stats, sinks_examined=nsinks))


def check_C04(tier):
    run = Run("C04", tier, level="exploration")
    cfgs = configs_for(tier)
    stats = run_engines(run, ["tables", "gates", "uxcomp", "limbcov"], cfgs, "C04")
    total = sum(s["tables"]["table_entries"] for s in stats.values())
    consts = sum(s["tables"]["constants"] for s in stats.values())
    tabs = sum(s["tables"]["tables"] for s in stats.values())
    return run.finish(
        explanation="Table clause of C04 only: every entry of every built-in precomputed generator table "
                    "(const-evaluated by rustc on the current tree) equals the multiple of the generator it stands "
                    "for, recomputed with independent affine big-integer arithmetic from the curve equations; plus "
                    "one-line identities of the curve/endomorphism constants; and the generator fast path's result "
                    "does not depend on the previous value of its output operand (G11); the 16385-word UX_COMP table of "
                    "multiples i*2^240*B (used by truncated verification) is re-derived likewise; K5 (limbcov) no whole-value limb "
                    "operation in the curves' call trees skips a limb. Recoding, windows and endomorphism "
                    "splitting (n*P for all n) are NOT decided.",
        evaluations=total + consts, distinct=total,
        rule="enumerate all entries of all PRECOMP_* statics in each build configuration; an entry is non-trivial "
             "when its expected value is a non-neutral point (all are)",
        exhaustive=True,
        extra_cov=dict(configs=cfgs, tables=tabs, table_entries=total, constants=consts, per_config=stats))


def check_C13(tier):
    run = Run("C13", tier, level="exploration")
    cfgs = configs_for(tier)
    stats = run_engines(run, ["uxcomp"], cfgs, "C13")
    n = sum(s["uxcomp"]["words"] for s in stats.values())
    return run.finish(
        explanation="Table clause of C13: all 16385 UX_COMP words equal ((u_i mod 2^48)<<16)|i for u_i the Montgomery "
                    "u-coordinate of i*2^240*B, sorted ascending with pairwise distinct top 48 bits; B227 = 2^227*B.",
        evaluations=n, distinct=max(n - 1, 0),
        rule="every word of UX_COMP; non-trivial = all but the neutral's word 0", exhaustive=True,
        extra_cov=dict(configs=cfgs, per_config=stats))


TOTALITY_TEXT = {
    "C19": "C19 clauses decided: (a) every explicit panic construct (panic!/assert!/unreachable!/unimplemented!, unwrap/expect, "
           "panicking std calls, fixed-vs-variable copy_from_slice) in functions reachable from the decode / verify / ECDH / map / "
           "hash / vartime-helper entry points is a documented precondition (rustdoc anchor re-checked), structurally impossible, or a "
           "reviewed table entry; caller-establishes-precondition rule for asserts in private helpers; (b) every index, range, "
           "copy-length, division and try_from obligation is discharged by constant folding, interval evaluation, loop-range "
           "reasoning, a dominating length guard, or a requirement met at every call site -- the residue is a frozen per-function "
           "inventory (tables/site_inventory.json) and only NEW undischarged obligations are reported; (c) R19c every natural loop "
           "in the crate is iterator-bounded (exit = None of Iterator::next), or a counter loop whose exit compares a local with a "
           "loop-invariant bound and whose every cycle steps that local by >= 1 towards the bound, or one of the reviewed loops of "
           "tables/loops.json (lattice reduction, binary search, rejection sampling: termination of those is NOT decided); (d) K2 every "
           "status word returned is a mask. NOT decided: arithmetic safety of the inventoried sites, termination of the reviewed loops, "
           "debug-only overflow checks.",
    "C10": "Totality clause of C10 only ('the routines always return: they never panic'): the C19 rules scoped to the call trees of "
           "the *_add_mulgen_vartime combinations and verify_helper_vartime; R10z in each of the ten combination routines the receiver is "
           "assigned as a whole on every path to the return, for every value of the routine's constant-assigned bool flags (product "
           "of the CFG with the flag values): otherwise the input point would be returned as the result for all-zero digits; K5 limb "
           "coverage in the call trees of the *vartime* routines. Equality with the constant-time computation is numeric and NOT decided.",
    "C11": "Totality clause of C11 only ('return for every input scalar, without panicking'): the C19 rules scoped to split_vartime, "
           "split_mu, split_theta, mul_divr_rounded and the lagrange family. The split contract and termination of the lattice "
           "reductions are numeric and NOT decided.",
    "C15": "Reachable-panic discipline for FROST: the C19 rules scoped to every public function of the five frost modules, including "
           "the caller-establishes rule for the ordering assert in derive_interpolating_value.",
}
TOTALITY_TEXT["C19"] += (" G14: wherever the result of the FROST identifier comparator is tested, the outcome Equal is handled on its own or "
                         "rejects (the predicate that establishes the interpolation assert's precondition must be strict).")


def check_totality(prop):
    def chk(tier):
        run = Run(prop, tier, level="other")
        cfgs = configs_for(tier)
        stats = run_engines(run, ["totality", "maskdom", "loops", "ordering"] if prop == "C19" else ["totality", "limbcov", "flaginit"] if prop == "C10" else ["totality", "limbcov"], cfgs, prop)
        nsites = sum(s["totality"].get("sites", 0) for s in stats.values())
        return run.finish(
            explanation=TOTALITY_TEXT[prop],
            evaluations=nsites, distinct=run.obligations,
            rule="one obligation per potentially panicking MIR construct (assert terminator, diverging call, unwrap, "
                 "range/index call, copy_from_slice, try_from) in the live code of every function in scope",
            extra_cov=dict(configs=cfgs, per_config=stats))
    return chk


GATE_TEXT = {
    "C05": "Structural clauses of C05: every field/scalar encoder produces its bytes from the type's normaliser output "
           "(set_normalized / set_montyred reaches the result); strict decoders take the failure path on a wrong length and the "
           "Option wrappers yield Some only under the strict decoder's status. NOT decided: that the borrow chain compares "
           "against the right modulus, the carry arithmetic of the normaliser, round-trip identity.",
    "C06": "Decode-gate clause of C06: for each of the nine group decoders the returned status depends on every rejection "
           "conjunct of the format's decoding rule (length, canonical coordinate via the strict field decoder, square-root / "
           "on-curve tests, sign / non-negativity tests, excluded values), counted per enclosing decoder; Point::decode and "
           "PublicKey::decode return Some only under that status. NOT decided: injectivity, representative-independence, maps.",
    "C07": "Gate clause of C07: the boolean returned by Ed25519/Ed448 verify_{raw,ctx,ph} depends on: exact signature length, "
           "strict decoding of R from its byte range, strict (non-reducing) decoding of S from its byte range, the Ed448 114th "
           "byte compared with zero unmasked, the decoder's own conjuncts, and the verification equation; signature bytes never "
           "reach a reducing decoder. NOT decided: that the equation/hash prefix computed is the right one, signing determinism.",
    "C08": "Gate clause of C08: ECDSA verify_hash depends on even length, zero surplus bytes in BOTH halves, strict decoding and "
           "non-zero test of r and of s, R not at infinity, final comparison; PrivateKey/PublicKey::decode range gates; G15 sign_hash, "
           "verify_hash and verify_trunc_hash take the leftmost bytes of the hash and place them right-aligned in the scalar buffer. NOT "
           "decided: nonce derivation, the arithmetic of the equation.",
    "C09": "Gate clause of C09: verify depends on len == 48 (equality test), canonical s from sig[16..48], challenge comparison "
           "with sig[0..16]; ECDH status depends on peer decoding and the neutral test; key decoders' gates. NOT decided: "
           "challenge computation, ECDH key agreement arithmetic.",
    "C13": "Two clauses of C13: the UX_COMP / B227 tables (exhaustive) and the soundness gates of truncated verification "
           "(length, strict r/R decoding, non-zero r, Some(..) only under the point-equality check of the reconstructed "
           "signature; r never reduced); G15 the truncated verifier takes the leftmost hash bytes, right-aligned, like sign_hash / verify_hash. NOT decided: "
           "completeness of the search.",
    "C15": "Structural clauses of C15: reachable-panic discipline of every public FROST function (totality rules, including the "
           "caller-establishes rule for the ordering assert) and the rejection gates of all decoders, decode_list, sign, share "
           "verification and signature assembly; G14 every test on the identifier comparator's result treats Equal separately or rejects it "
           "(strictly increasing lists: no duplicated identifier). NOT decided: Lagrange interpolation algebra.",
    "C16": "Verification-gate clause of C16: LMS verify depends on the exact signature size, leaf index range, both type codes "
           "and the final root comparison, for all four parameter sets. The one-time-key state machine of sign() is checked "
           "by the lmsstate rule (dominance of the index advance).",
}


def check_gates(prop, engines, level="other"):
    def chk(tier):
        run = Run(prop, tier, level=level)
        cfgs = configs_for(tier)
        stats = run_engines(run, engines, cfgs, prop)
        n = run.obligations
        return run.finish(
            explanation=GATE_TEXT[prop],
            evaluations=n, distinct=n,
            rule="one obligation per (configuration, function, required check fact class): the fact must reach the function's "
                 "result through data or control dependence (taint analysis with implicit flows over MIR, interprocedural)",
            extra_cov=dict(configs=cfgs, per_config=stats), exhaustive=(True if "uxcomp" in engines else None))
    return chk


GATE_TEXT["C20"] = ("Structural core of C20, part 1 (maskdom): K1 every control word reaching a conditional copy / select / swap / "
                   "negate / lookup primitive (parameters named ctl and parameters forwarded to them) has a value set within "
                   "{0, 0xFFFFFFFF} at every call site (value-set / interval / signed-range / SIMD lane-mask abstract "
                   "interpretation, context-sensitive on small helpers); K2 every predicate returns such a word. Part 2 "
                   "(muxshape K3): every set_cond / cswap on a limb array stores, for every limb (all constant indices, or a "
                   "loop over 0..len), exactly MUX(ctl, own, other) as a Boolean function (exhaustive truth-table equality; the "
                   "selector must be the full-width broadcast of ctl, so zero-extension is rejected); composite types delegate "
                   "field by field to verified primitives with their own ctl; select = copy a0 + set_cond(a1); set_condneg "
                   "conditionally replaces exactly the fields that the type's negation negates. K4: every constant-time lookup scans "
                   "its whole table: a single Range(0..N) loop without data-dependent exit whose table indices are affine in "
                   "the loop variable with all columns covered and N x stride = table length, or an unrolled scan reading every "
                   "entry with constant indices, or delegation to such a lookup. NOT decided: that "
                   "iszero/equals compute mathematical equality, that a lookup mask selects the requested index.")
def eng_hashreset(f, sub, prop):
    from . import hashreset
    hashreset.run_hashreset(f, sub, prop)


ENGINES["hashreset"] = eng_hashreset


def eng_widecov(f, sub, prop):
    from . import limbcov
    from .ctflow import norm_name
    n = limbcov.run_widecov(f, sub, prop, lambda fn: norm_name(fn["name"]).startswith(("crrl::sha2::", "crrl::sha3::", "crrl::blake2s::")))
    if n < 5:
        sub.oblige(ok=False)
        sub.add(Finding("K6", "anchor", "limbcov K6: only %d 64-bit parameters / field copies found in the hash modules (floor 5)" % n, config=f.config, prop=prop))


ENGINES["widecov"] = eng_widecov


def eng_loops(f, sub, prop):
    from . import loopprog
    n = loopprog.run_loops(f, sub, prop)
    if n < 500:
        sub.oblige(ok=False)
        sub.add(Finding("R19c", "anchor", "totality R19c: only %d loops classified (floor 500)" % n, config=f.config, prop=prop))


ENGINES["loops"] = eng_loops


def eng_ordering(f, sub, prop):
    from . import ordering
    n, nrej = ordering.run_ordering(f, sub, prop)
    # counted on the reviewed tree: 5 FROST suites x (sign, decode_list, commitment_list_is_sorted, the interpolation assert)
    if nrej < 15:
        sub.oblige(ok=False)
        sub.add(Finding("G14", "anchor", "gates G14: only %d comparator uses where Equal rejects (floor 15 of the 20 reviewed): the rule "
                        "would pass vacuously" % nrej, config=f.config, prop=prop))


ENGINES["ordering"] = eng_ordering


def eng_hashconv(f, sub, prop):
    from . import hashconv
    n = hashconv.run_hashconv(f, sub, prop)
    if n < 4:      # p256 (three functions) and secp256k1 (two) on the reviewed tree
        sub.oblige(ok=False)
        sub.add(Finding("G15", "anchor", "gates G15: only %d ECDSA function(s) with a described hash conversion (floor 4 of 5)" % n,
                        config=f.config, prop=prop))


ENGINES["hashconv"] = eng_hashconv


def eng_flaginit(f, sub, prop):
    from . import flaginit
    n = flaginit.run_flaginit(f, sub, prop)
    if n < 10:
        sub.oblige(ok=False)
        sub.add(Finding("R10z", "anchor", "flaginit R10z: only %d combination routines found (floor 10)" % n, config=f.config, prop=prop))


ENGINES["flaginit"] = eng_flaginit
GATE_TEXT["C17"] = ("Two structural clauses of C17: G7a for each hash context type, reset() (transitively) writes every field "
                    "that new() initialises, except the reviewed configuration / dead-buffer fields; G7b every public function "
                    "named *reset* or documented as automatically resetting reaches its return only through a call that resets "
                    "self; K6 no 64-bit byte counter (parameter or copy of a field) of the hash modules is consumed only through a "
                    "truncation to 32 bits. NOT decided: digest values, padding boundaries, chunking independence, SHAKE stream continuity.")


def eng_p4(f, sub, prop):
    from . import apiparity
    apiparity.run_p4(f, sub, prop)


ENGINES["p4"] = eng_p4


def check_C18(tier):
    from . import apiparity
    run = Run("C18", tier, level="other")
    cfgs = configs_for(tier, quick=["x64", "x64-w32", "x64-m51", "x64-clmul", "x64-tf"])
    if "x64" not in cfgs:
        cfgs = ["x64"] + cfgs
    # P3: the backend-sensitive structural rules, re-decided in every configuration, reported against C18
    stats = run_engines(run, ["p4", "maskdom", "muxshape", "gates", "limbcov"], cfgs, "C18")
    th = factsmod.tree_hash()
    af = {c: factsmod.load(c, th) for c in cfgs}
    n, nref = apiparity.run_p1(af, run, "C18")
    n5 = apiparity.run_p5(af, run, "C18")
    n5 += apiparity.run_p6(af, run, "C18")
    return run.finish(
        explanation="Structural clauses of C18: P1 every externally reachable function of a backend type in the reference "
                    "configuration exists with the same signature (modulo module paths and the documented type aliases) in "
                    "every other configuration that provides the type; P4 every value split into a word index `k >> S` and a "
                    "bit offset `k & M` uses M = 2^S - 1 (sibling bit accessors must agree); P3 the backend-sensitive "
                    "structural rules (status words are masks, control words are masks, primitives are multiplexers, lookups "
                    "scan their table, field codecs' gates) are re-decided under each build configuration; P5 sibling functions of "
                    "two backends that have the same shape (block count and call sequence) must also agree on which operands "
                    "(parameters positionally, locals up to renaming) each call receives; P6 siblings calling the same set of own-type "
                    "methods have the same number of call sites per method; K5 limb coverage in every backend. NOT decided: "
                    "byte-identical results of the arithmetic.",
        evaluations=run.obligations, distinct=n,
        rule="one obligation per (configuration, API item) for P1, per index/offset pair for P4, plus the obligations of the "
             "re-run rules",
        extra_cov=dict(configs=cfgs, reference_api_items=nref, sibling_pairs_compared=n5, per_config=stats))


CHECKS = {"C17": check_gates("C17", ["hashreset", "widecov"]), "C18": check_C18, "C20": check_gates("C20", ["maskdom", "muxshape", "limbcov", "gates"]), "C05": check_gates("C05", ["gates", "limbcov"]), "C06": check_gates("C06", ["gates", "limbcov"]), "C07": check_gates("C07", ["gates", "limbcov"]),
          "C08": check_gates("C08", ["gates", "limbcov", "hashconv"]), "C09": check_gates("C09", ["gates", "limbcov"]),
          "C15": check_gates("C15", ["gates", "totality", "limbcov", "ordering"]), "C16": check_gates("C16", ["gates"]),
          "C02": check_C02, "C04": check_C04, "C13": check_gates("C13", ["uxcomp", "gates", "limbcov", "hashconv"], level="exploration"),
          "C19": check_totality("C19"), "C10": check_totality("C10"), "C11": check_totality("C11")}


def main(argv):
    ap = argparse.ArgumentParser()
    ap.add_argument("prop")
    ap.add_argument("--tier", default=os.environ.get("VERIF_TIER", "quick"))
    ap.add_argument("--explain")
    a = ap.parse_args(argv)
    if a.explain:
        print(open(a.explain).read())
        return 0
    if a.prop not in CHECKS:
        print("unknown property", a.prop)
        return 2
    return CHECKS[a.prop](a.tier)
