"""E4 totality: explicit panics, bounds / slice-length obligations, loops (C19; scoped views C10 C11 C15).

Every potentially panicking construct in non-test code is enumerated from MIR
and must be discharged by a rule (constant folding, interval evaluation of the
index, dominating length guard, requirement met by every caller) or by a
reviewed table entry (tables/panic_sites.json) keyed without line numbers."""
import json
import os
import re

from .absint import FnEval, INF
from .mir import Body, operand_local, const_int
from .report import Finding
from .ctflow import norm_name, fullmatch_name

VERIF = os.path.dirname(os.path.dirname(os.path.abspath(__file__)))

INDEX_FNS = ("ops::Index<I> for [T]>::index", "ops::IndexMut<I> for [T]>::index_mut",
             "ops::Index<I> for [T; N]>::index", "ops::IndexMut<I> for [T; N]>::index_mut",
             "Vec<T, A> as core::ops::Index<I>>::index", "Vec<T, A> as core::ops::IndexMut<I>>::index_mut")


def load_table():
    p = os.path.join(VERIF, "tables", "panic_sites.json")
    if not os.path.exists(p):
        return {"entries": []}
    with open(p) as fh:
        return json.load(fh)


class Site:
    __slots__ = ("fn", "bi", "kind", "disc", "line", "status", "why", "req", "macros", "callee")

    def __init__(self, fn, bi, kind, disc, line, macros=None, callee=None):
        self.fn = fn
        self.bi = bi
        self.kind = kind       # panic | unwrap | bounds | div | range | copylen | tryfrom | callreq | stdpanic
        self.disc = disc       # discriminator (message / callee / indexed thing)
        self.line = line
        self.status = "open"   # discharged | req | open
        self.why = ""
        self.req = None        # (param, 'min'|'eq', value)
        self.macros = macros or []
        self.callee = callee

    def key(self):
        return "%s|%s|%s" % (norm_name(self.fn["name"]), self.kind, self.disc)


class LenVal:
    __slots__ = ("lo", "hi", "sym")

    def __init__(self, lo, hi, sym=None):
        self.lo, self.hi, self.sym = lo, hi, sym


from .absint import SuccCtx  # noqa: E402  (shared with descr)


class FnTotality:
    def __init__(self, facts, fn, ctx=None):
        self.f = facts
        self.fn = fn
        self.body = Body(fn)
        self.ev = FnEval(facts, self.body, ctx)
        self.sites = []
        self.live = None
        self.calls = []   # (bi, callee fn record, args)

    # ---- liveness under constant folding ----
    def live_blocks(self):
        if self.live is not None:
            return self.live
        b = self.body
        seen = set([0])
        st = [0]
        while st:
            x = st.pop()
            t = b.blocks[x]["t"]
            succs = b.succ[x]
            if t[0] == "switch":
                iv = self.ev.at_block(x).op_ival(t[1])
                if iv is not None and iv[0] == iv[1]:
                    v = int(iv[0])
                    tgt = None
                    for val, bb in t[2]:
                        if int(val) == v:
                            tgt = bb
                    if tgt is None:
                        tgt = t[3]
                    succs = [tgt]
            for s in succs:
                if s not in seen and not b.blocks[s].get("c"):
                    seen.add(s)
                    st.append(s)
        self.live = seen
        return seen

    # ---- lengths with symbolic parameter base ----
    def slice_lenval(self, op, at, depth=0):
        ev = self.ev.at_block(at)
        iv = ev.slice_len(op, at)
        sym = self.len_sym(op, at, 0)
        if iv is None:
            iv = (0, INF)
        return LenVal(iv[0], iv[1], sym)

    def len_sym(self, op, at, depth):
        """(param, offset) if the referenced slice is exactly param[offset..]."""
        if depth > 12 or op[0] not in ("cp", "mv") or len(op[1]) != 1:
            return None
        l = op[1][0]
        b = self.body
        if l != 0 and l <= self.fn["argc"]:
            td = self.f.ty(b.local_ty(l))
            if td.get("k") in ("ref", "ptr"):
                inner = self.f.ty(td["to"])
                if inner.get("k") == "slice":
                    return (l, 0)
            return None
        d = b.single_def(l)
        if not d:
            return None
        if d[2] == "A":
            rv = d[3][2]
            if rv[0] == "ref" and len(rv[2]) == 2 and rv[2][1] == "*":
                return self.len_sym(["cp", [rv[2][0]]], at, depth + 1)
            if rv[0] == "use":
                o = rv[1]
                if o[0] in ("cp", "mv") and len(o[1]) == 2 and isinstance(o[1][1], list) and o[1][1][0] == "f":
                    dd = b.single_def(o[1][0])
                    if dd and dd[2] == "A" and dd[3][2][0] == "agg" and o[1][1][1] < len(dd[3][2][2]):
                        return self.len_sym(dd[3][2][2][o[1][1][1]], at, depth + 1)
                    return None
                return self.len_sym(rv[1], at, depth + 1)
            return None
        t = d[3]
        name = t[1]["f"]
        if any(x in name for x in INDEX_FNS):
            base = self.len_sym(t[2][0], at, depth + 1)
            if base is None:
                return None
            rng = self.ev.at_block(at).range_of(t[2][1])
            if rng is None:
                return None
            kind, a, c = rng
            if kind == "full":
                return base
            if kind == "from" and a is not None and a[0] == a[1]:
                return (base[0], base[1] - int(a[0]))
            return None
        if name.endswith("::as_ref") or "Deref>::deref" in name:
            return self.len_sym(t[2][0], at, depth + 1)
        return None

    def need_min(self, site, L, need, what):
        """Obligation need <= L."""
        if need == INF or need >= (1 << 40) or need >= self.ev.ptr_max // 2:
            site.status = "open"
            site.why = "%s: required length unbounded" % what
            return
        if need <= L.lo:
            site.status = "discharged"
            site.why = "%s: need %s <= len >= %s" % (what, need, L.lo)
            return
        if L.sym is not None:
            site.status = "req"
            site.req = (L.sym[0], "min", int(need - L.sym[1]))
            site.why = "%s: requires len(%s) >= %d" % (what, self.pname(L.sym[0]), need - L.sym[1])
            return
        site.status = "open"
        site.why = "%s: need %s but length only known >= %s" % (what, need, L.lo)

    def need_eq(self, site, L, n, what):
        if L.lo == L.hi == n:
            site.status = "discharged"
            site.why = "%s: length is exactly %d" % (what, n)
            return
        if L.sym is not None and L.lo <= n <= L.hi:
            site.status = "req"
            site.req = (L.sym[0], "eq", int(n - L.sym[1]))
            site.why = "%s: requires len(%s) == %d" % (what, self.pname(L.sym[0]), n - L.sym[1])
            return
        site.status = "open"
        site.why = "%s: need length == %d, known [%s, %s]" % (what, n, L.lo, L.hi)

    def pname(self, l):
        return self.fn["locals"][l][1] or "_%d" % l

    def name_of_place_root(self, op):
        l = operand_local(op)
        if l is None and op[0] in ("cp", "mv"):
            l = op[1][0]
        if l is None:
            return "?"
        # chase to a named local
        seen = 0
        while seen < 10:
            n = self.fn["locals"][l][1]
            if n:
                return n
            d = self.body.single_def(l)
            if not d:
                break
            if d[2] == "A":
                rv = d[3][2]
                if rv[0] in ("ref", "rawptr"):
                    l = rv[2][0]
                elif rv[0] in ("use", "cast") and rv[-2 if rv[0] == "cast" else 1][0] in ("cp", "mv"):
                    l = (rv[2] if rv[0] == "cast" else rv[1])[1][0]
                else:
                    break
            elif d[2] == "call" and d[3][2] and d[3][2][0][0] in ("cp", "mv"):
                l = d[3][2][0][1][0]
            else:
                break
            seen += 1
        return "_"

    # ---- site enumeration ----
    def analyse(self):
        b = self.body
        live = self.live_blocks()
        ordinal = {}

        def disc_with_ordinal(base):
            n = ordinal.get(base, 0)
            ordinal[base] = n + 1
            return base if n == 0 else "%s#%d" % (base, n)

        for bi in sorted(live):
            blk = b.blocks[bi]
            t = blk["t"]
            ev = self.ev.at_block(bi)
            # a closure built here may be called (by an iterator adaptor, sort_by, ...): edge to its body
            for st_ in blk["s"]:
                if st_[0] == "A" and st_[2][0] == "agg" and st_[2][1].get("k") == "closure":
                    cf = self.f.fns.get(st_[2][1].get("path"))
                    if cf is not None:
                        self.calls.append((bi, cf, [], st_[3]))
            # Index projections with bounds asserts
            if t[0] == "assert":
                kind = t[3]
                if kind == "bounds":
                    lenop, idxop = t[4]
                    idx = ev.op_ival(idxop)
                    ln = ev.op_ival(lenop)
                    s = Site(self.fn, bi, "bounds", None, t[6], t[7])
                    arr = self.indexed_name(bi, idxop)
                    s.disc = disc_with_ordinal("index:%s" % arr)
                    if idx is not None and ln is not None and idx[1] < ln[0]:
                        s.status = "discharged"
                        s.why = "index in [%s,%s] < len >= %s" % (idx[0], idx[1], ln[0])
                    elif ev.provably_less(idxop, ev.expr_key(lenop, [])):
                        s.status = "discharged"
                        s.why = "index bounded by a loop range ending at the slice length"
                    else:
                        # length through a parameter slice?
                        lsym = self.lenop_sym(lenop, bi)
                        po = self._param_plus_const(ev, idxop)
                        if lsym is not None and po is not None:
                            # `buf[off + k]` with `off` a by-value parameter: each caller owes len(buf) >= off + k + 1
                            s.status = "req"
                            s.req = (lsym[0], "minp", (po[0], int(po[1] + 1 - lsym[1])))
                            s.why = "requires len(%s) >= %s + %d" % (self.pname(lsym[0]), self.pname(po[0]), po[1] + 1 - lsym[1])
                        elif idx is not None and idx[1] != INF and lsym is not None and idx[1] + 1 < min(1 << 40, ev.ptr_max // 2):
                            # (an index only known to fit the machine word is no requirement a caller could meet: it stays open here)
                            s.status = "req"
                            s.req = (lsym[0], "min", int(idx[1] + 1 - lsym[1]))
                            s.why = "requires len(%s) >= %d" % (self.pname(lsym[0]), idx[1] + 1 - lsym[1])
                        else:
                            s.why = "index %s vs len %s" % (idx, ln)
                    self.sites.append(s)
                elif kind in ("div0", "rem0"):
                    s = Site(self.fn, bi, "div", disc_with_ordinal("div"), t[6], t[7])
                    # the assert's condition is `divisor == 0` (its message operand is the dividend)
                    dv = None
                    cl = operand_local(t[1])
                    cd = self.body.single_def(cl) if cl is not None else None
                    if cd and cd[2] == "A" and cd[3][2][0] == "bin" and cd[3][2][1] == "Eq":
                        for x, y in ((cd[3][2][2], cd[3][2][3]), (cd[3][2][3], cd[3][2][2])):
                            if const_int(y) == 0:
                                dv = ev.op_ival(x)
                                c_ = const_int(x)
                                if dv is None and c_ is not None:
                                    dv = (c_, c_)
                    if dv is not None and dv[0] > 0:
                        s.status = "discharged"
                        s.why = "divisor >= %s" % dv[0]
                    self.sites.append(s)
                elif kind in ("overflow", "overflow_neg"):
                    pass  # dev profile only; not part of the claim
                else:
                    self.sites.append(Site(self.fn, bi, "assert-" + kind, disc_with_ordinal(kind), t[6], t[7]))
            elif t[0] == "call":
                callee = t[1]
                name = callee["f"]
                args = t[2]
                mac = t[6]
                if t[4] is None or name.startswith("core::panicking::"):
                    msg = None
                    for a in args:
                        if a[0] == "kc" and "str" in a[2]:
                            msg = a[2]["str"]
                    m0 = [m for m in mac if m in ("assert", "assert_eq", "assert_ne", "debug_assert", "debug_assert_eq", "panic", "unreachable", "unimplemented", "todo")]
                    d = "%s:%s" % (m0[0] if m0 else name.split("::")[-1], msg if msg is not None else "")
                    if callee["l"] and t[4] is None:
                        # diverging local function: treat as ordinary call (its own sites are analysed there)
                        tgt = self.f.fns.get(callee["id"])
                        if tgt is not None:
                            self.calls.append((bi, tgt, args, t[5]))
                            continue
                    self.sites.append(Site(self.fn, bi, "panic", disc_with_ordinal(d), t[5], mac))
                    continue
                if callee["l"]:
                    tgt = self.f.fns.get(callee["id"])
                    if tgt is not None:
                        self.calls.append((bi, tgt, args, t[5]))
                    continue
                if not callee["r"] and not callee["l"]:
                    # unresolved trait call (generic): e.g. RngCore; cannot panic by contract here
                    pass
                if any(x in name for x in INDEX_FNS):
                    self.index_call(bi, t, disc_with_ordinal)
                elif name.endswith("::copy_from_slice") or name.endswith("::clone_from_slice"):
                    s = Site(self.fn, bi, "copylen", disc_with_ordinal("copy_from_slice:%s" % self.name_of_place_root(args[0])), t[5], mac)
                    Ld = self.slice_lenval(args[0], bi)
                    Ls = self.slice_lenval(args[1], bi)
                    if self.ev.at_block(bi).same_length(args[0], args[1]):
                        s.status = "discharged"
                        s.why = "destination and source lengths are the same expression"
                    elif Ld.lo == Ld.hi and Ld.hi != INF:
                        self.need_eq(s, Ls, Ld.lo, "copy_from_slice source")
                    elif Ls.lo == Ls.hi and Ls.hi != INF:
                        self.need_eq(s, Ld, Ls.lo, "copy_from_slice destination")
                    else:
                        s.why = "lengths dst [%s,%s] src [%s,%s]" % (Ld.lo, Ld.hi, Ls.lo, Ls.hi)
                    if s.status == "open" and ((Ld.lo == Ld.hi) != (Ls.lo == Ls.hi)):
                        # contradiction shape: one operand has a fixed length, the other a variable one, and
                        # nothing ties them together -- never bulk-frozen, needs an individual review
                        s.kind = "copylen-mismatch"
                        s.why = "copy_from_slice between a fixed-length (%s) and a variable-length operand: %s" % (
                            Ld.lo if Ld.lo == Ld.hi else Ls.lo, s.why)
                    self.sites.append(s)
                elif name.endswith("::unwrap") or name.endswith("::expect"):
                    self.unwrap_call(bi, t, disc_with_ordinal)
                elif name.endswith("::split_at") or name.endswith("::split_at_mut"):
                    s = Site(self.fn, bi, "range", disc_with_ordinal("split_at:%s" % self.name_of_place_root(args[0])), t[5], mac)
                    L = self.slice_lenval(args[0], bi)
                    mid = ev.op_ival(args[1])
                    if ev.provably_le_len(args[1], ev.len_key(args[0], [])):
                        s.status = "discharged"
                        s.why = "split point <= len structurally (min() / remaining-length upper bound)"
                    elif mid is not None and mid[1] != INF:
                        self.need_min(s, L, mid[1], "split_at")
                    else:
                        s.why = "split point unknown"
                    self.sites.append(s)
                elif (name.endswith("]>::chunks") or name.endswith("]>::chunks_exact") or name.endswith("]>::windows")
                      or name.endswith("]>::chunks_mut") or name.endswith("]>::chunks_exact_mut") or name.endswith("::step_by")) \
                        and len(args) >= 2 and (ev.op_ival(args[1]) or (0, 0))[0] >= 1:
                    # these panic only for a zero size / step: a constant (or provably positive) argument cannot
                    s = Site(self.fn, bi, "stdpanic", disc_with_ordinal(name.split("::")[-1]), t[5], mac)
                    s.status = "discharged"
                    s.why = "size argument >= 1"
                    self.sites.append(s)
                elif name.endswith("Vec::<T, A>::insert") \
                        or name.endswith("]>::swap") or name.endswith("]>::chunks") or name.endswith("]>::chunks_exact") or name.endswith("]>::windows") \
                        or name.endswith("]>::chunks_mut") or name.endswith("]>::chunks_exact_mut") or name.endswith("::step_by") \
                        or name.endswith("Vec::<T, A>::remove") or name.endswith("::copy_within") or name.endswith("Vec::<T, A>::drain"):
                    self.sites.append(Site(self.fn, bi, "stdpanic", disc_with_ordinal(name.split("::")[-1]), t[5], mac))
        return self

    def lenop_sym(self, lenop, bi):
        """If the bounds-check length operand is len(param slice [+offset]) return (param, offset)."""
        l = operand_local(lenop)
        if l is None:
            return None
        d = self.body.single_def(l)
        if not d:
            return None
        if d[2] == "A":
            rv = d[3][2]
            if rv[0] == "un" and rv[1] == "PtrMetadata":
                return self.len_sym(rv[2], bi, 0)
            if rv[0] == "use":
                return self.lenop_sym(rv[1], bi)
        elif d[2] == "call" and d[3][1]["f"].endswith("::len"):
            return self.len_sym(d[3][2][0], bi, 0)
        return None

    def indexed_name(self, bi, idxop):
        # find the statement in this block's successor using the index... keep it simple: name of index local
        l = operand_local(idxop)
        if l is not None and self.fn["locals"][l][1]:
            return "[%s]" % self.fn["locals"][l][1]
        c = const_int(idxop)
        if c is not None:
            return "[%d]" % c
        if l is not None:
            d = self.body.single_def(l)
            if d and d[2] == "A":
                rv = d[3][2]
                if rv[0] == "use":
                    c = const_int(rv[1])
                    if c is not None:
                        return "[%d]" % c
        return "[expr]"

    def index_call(self, bi, t, dwo):
        args = t[2]
        ev = self.ev.at_block(bi)
        base = self.slice_lenval(args[0], bi)
        nm = self.name_of_place_root(args[0])
        rng = ev.range_of(args[1])
        if rng is None:
            # scalar index?
            idx = ev.op_ival(args[1])
            l = operand_local(args[1])
            isint = (l is not None and self.f.ty(self.body.local_ty(l)).get("k") in ("uint", "int")) or const_int(args[1]) is not None
            if isint:
                s = Site(self.fn, bi, "bounds", dwo("index:%s" % nm), t[5], t[6])
                if ev.provably_less(args[1], ev.len_key(args[0], [])):
                    s.status = "discharged"
                    s.why = "index bounded by a loop range ending at the slice length"
                elif idx is not None and idx[1] != INF:
                    self.need_min(s, base, idx[1] + 1, "index")
                else:
                    s.why = "index unbounded"
                self.sites.append(s)
                return
            s = Site(self.fn, bi, "range", dwo("range:%s" % nm), t[5], t[6])
            s.why = "range operand not understood"
            self.sites.append(s)
            return
        kind, a, c = rng
        s = Site(self.fn, bi, "range", dwo("range:%s" % nm), t[5], t[6])
        if kind == "full":
            s.status = "discharged"
            s.why = "full range"
        elif kind == "range" and self._range_symbolic_ok(ev, args):
            s.status = "discharged"
            s.why = "start <= end <= len by structural bounds (unsigned offsets, min() upper bound)"
        elif kind == "range" and self._range_param_relative(ev, args, base, s):
            pass
        elif kind == "range":
            if a is None or c is None or c[1] == INF:
                s.why = "range bounds unknown (%s..%s)" % (a, c)
            elif a[1] > c[0] and not self._range_ordered(ev, args[1]):
                s.why = "cannot show start <= end (%s..%s)" % (a, c)
            elif self._range_end_stepped(ev, args):
                s.status = "discharged"
                s.why = "range end is a counter just advanced by min(len - counter, ..): end <= len structurally"
            else:
                self.need_min(s, base, c[1], "range end")
        elif kind == "from":
            if a is None or a[1] == INF:
                s.why = "range start unknown"
            else:
                self.need_min(s, base, a[1], "range start")
        elif kind in ("to", "toinc"):
            if c is None or c[1] == INF:
                s.why = "range end unknown"
            else:
                self.need_min(s, base, c[1] + (1 if kind == "toinc" else 0), "range end")
        if kind == "range" and s.status == "open":
            self._range_lin_req(ev, args, s)      # last resort: a linear relation between parameters, owed by the callers
        self.sites.append(s)

    def _range_param_relative(self, ev, args, base, s):
        """`buf[off..off + k]` with `off` a by-value integer parameter and buf a slice parameter: start <= end holds by
        construction and the obligation `len(buf) >= off + k` becomes a requirement on every caller ('minp')."""
        ro = ev.range_operands(args[1])
        if ro is None or base.sym is None or base.sym[1] != 0:
            return False
        k = ev.offset_between(ro[1], ro[2])
        if k is None or k < 0:
            return False
        lf = ev.linform(ev.expr_key(ro[2], []))
        if lf is None or len(lf[0]) != 1:
            return False
        (atom, coeff), = lf[0].items()
        if coeff != 1 or atom[0] != "l" or not (0 < atom[1] <= self.fn["argc"]) or lf[1] < 0:
            return False
        td = self.f.ty(self.body.local_ty(atom[1]))
        if td.get("k") != "uint":
            return False
        s.status = "req"
        s.req = (base.sym[0], "minp", (atom[1], int(lf[1])))
        s.why = "range end: requires len(%s) >= %s + %d" % (self.pname(base.sym[0]), self.pname(atom[1]), lf[1])
        return True

    def _param_plus_const(self, ev, op):
        """(param, c) when the operand is `never-assigned unsigned by-value parameter + c` (c >= 0)"""
        lf = ev.linform(ev.expr_key(op, []))
        if lf is None or len(lf[0]) != 1 or lf[1] < 0:
            return None
        (atom, coeff), = lf[0].items()
        if coeff != 1 or not self._paramish(atom) or atom[0] != "l":
            return None
        return atom[1], int(lf[1])

    def _paramish(self, atom):
        """atom of a linear form that a caller can re-express: a never-assigned unsigned by-value parameter, or the
        length of a parameter slice"""
        if atom[0] == "l":
            l = atom[1]
            return 0 < l <= self.fn["argc"] and not self.body.defs().get(l) and self.f.ty(self.body.local_ty(l)).get("k") == "uint"
        if atom[0] == "len":
            return isinstance(atom[1], int) and 0 < atom[1] <= self.fn["argc"]
        return False

    def _range_lin_req(self, ev, args, s):
        """`self.buf[ptr..ptr + chunk.len()]`: start <= end structurally and `end <= len` is a linear relation between
        parameters (values and slice lengths): it becomes a requirement ('lin') that every caller must establish."""
        ro = ev.range_operands(args[1])
        if ro is None or not ev.diff_nonneg(ro[1], ro[2]):
            return False
        reads = []
        lk = ev.len_key(args[0], reads)
        if lk is None:
            return False
        le, ll = ev.linform(ev.expr_key(ro[2], reads)), ev.linform(lk)
        if le is None or ll is None or not ev.reads_consistent(reads):
            return False
        d = dict(le[0])
        for k_, v_ in ll[0].items():
            d[k_] = d.get(k_, 0) - v_
        d = {k_: v_ for k_, v_ in d.items() if v_ != 0}
        if not d or not all(self._paramish(a) for a in d):
            return False
        s.status = "req"
        s.req = (0, "lin", (tuple(sorted(d.items(), key=str)), int(le[1] - ll[1])))
        s.why = "range end: requires %s + %d <= 0 of the caller's arguments" % (
            " + ".join("%d*%s(%s)" % (v_, "len" if a[0] == "len" else "", self.pname(a[1])) for a, v_ in sorted(d.items(), key=str)), le[1] - ll[1])
        return True

    def lin_at_call(self, bi, args, lin):
        """Re-express a callee's linear requirement at this call site.  -> ('ok'|'req'|'open', payload)"""
        atoms, const = lin
        ev = self.ev.at_block(bi)
        reads = []
        tot = {}
        c = const
        for a, coef in atoms:
            if a[1] - 1 >= len(args):
                return "open", None
            key = ev.expr_key(args[a[1] - 1], reads) if a[0] == "l" else ev.len_key(args[a[1] - 1], reads)
            if key is None:
                return "open", None
            lf = ev.linform(key)
            if lf is None:
                return "open", None
            for k_, v_ in lf[0].items():
                tot[k_] = tot.get(k_, 0) + coef * v_
            c += coef * lf[1]
        alts = ev.ub_expand((tot, c), reads)
        if not ev.reads_consistent(reads):
            return "open", None
        for (d_, c_) in alts:
            nz = {k_: v_ for k_, v_ in d_.items() if v_ != 0}
            if not nz and c_ <= 0:
                return "ok", None
        for (d_, c_) in alts:
            nz = {k_: v_ for k_, v_ in d_.items() if v_ != 0}
            if nz and all(self._paramish(a) for a in nz):
                return "req", (tuple(sorted(nz.items(), key=str)), int(c_))
        return "open", None

    def _range_symbolic_ok(self, ev, args):
        ro = ev.range_operands(args[1])
        if ro is None:
            return False
        if not ev.diff_nonneg(ro[1], ro[2]):
            return False
        return ev.provably_le_len(ro[2], ev.len_key(args[0], []))

    def _range_ordered(self, ev, rop):
        ro = ev.range_operands(rop)
        if ro is None:
            return False
        k = ev.offset_between(ro[1], ro[2])
        if k is not None and k >= 0:
            return True
        return self._range_back_step(ro[1], ro[2])

    def _reaching_def(self, local, bi, before):
        """The one definition of `local` that reaches statement index `before` of block bi, walking back through
        single-predecessor blocks only; None when a join is met first."""
        b = self.body
        for _ in range(12):
            best = None
            for si, st in enumerate(b.blocks[bi]["s"]):
                if si >= before:
                    break
                if st[0] == "A" and st[1] == [local]:
                    best = (bi, si, st)
            if best is not None:
                return best
            preds = [p for p in b.pred[bi] if p in b.reachset]
            if len(preds) != 1:
                return None
            t = b.blocks[preds[0]]["t"]
            if t[0] == "call" and t[3] == [local]:
                return None
            bi = preds[0]
            before = 1 << 30
        return None

    def _range_end_stepped(self, ev, args):
        """`j += c; .. &src[(j - c)..j]` with c = min(len(src) - j, ..): the end operand is a counter whose reaching definition
        is j_old + c; that sum is bounded by the length exactly as in `&src[j..j + c]`."""
        b = self.body
        ro = ev.range_operands(args[1])
        if ro is None:
            return False
        e = operand_local(ro[2])
        for _ in range(4):
            d = b.single_def(e) if e is not None else None
            if d and d[2] == "A" and d[3][2][0] == "use" and d[3][2][1][0] in ("cp", "mv") and len(d[3][2][1][1]) == 1:
                last = d
                e = d[3][2][1][1][0]
            else:
                break
        else:
            return False
        if e is None or len(b.defs().get(e, [])) < 2:
            return False
        # where is the counter read for the range?  the temporary that copies it
        rd_at = None
        l0 = operand_local(ro[2])
        d0 = b.single_def(l0) if l0 is not None else None
        if d0 and d0[2] == "A" and isinstance(d0[1], int):
            rd_at = (d0[0], d0[1])
        if rd_at is None:
            return False
        rd = self._reaching_def(e, rd_at[0], rd_at[1])
        if rd is None:
            return False
        rv = rd[2][2]
        src_bi = rd[0]
        if rv[0] == "use" and rv[1][0] in ("cp", "mv") and len(rv[1][1]) == 2:
            dd = b.single_def(rv[1][1][0])
            if not (dd and dd[2] == "A"):
                return False
            rv = dd[3][2]
            src_bi = dd[0]
        if not (rv[0] == "bin" and rv[1] in ("Add", "AddWithOverflow", "AddUnchecked")):
            return False
        reads = []
        key = ("Add", ev._opk(rv[2], reads, 0, src_bi), ev._opk(rv[3], reads, 0, src_bi))
        own = (e, rd[0], rd[1]) if src_bi == rd[0] else None
        return ev.provably_le_len_key(key, reads, ev.len_key(args[0], []), own)

    def _range_back_step(self, start, end):
        """`j += c; .. &src[(j - c)..j]`: start = j - c and end = j where the reaching definition of j is j_old + c with the
        same c (not redefined since): then start = j_old <= end, and the subtraction cannot wrap."""
        b = self.body
        ls, le = operand_local(start), operand_local(end)
        if ls is None or le is None:
            return False
        ds = b.single_def(ls)
        # start = Sub(j, c), possibly through the overflow-checked pair
        for _ in range(3):
            if ds and ds[2] == "A" and ds[3][2][0] == "use" and ds[3][2][1][0] in ("cp", "mv"):
                ds = b.single_def(ds[3][2][1][1][0])
            else:
                break
        if not (ds and ds[2] == "A" and ds[3][2][0] == "bin" and ds[3][2][1] in ("Sub", "SubWithOverflow", "SubUnchecked")):
            return False
        j, c = operand_local(ds[3][2][2]), operand_local(ds[3][2][3])

        def root(l):
            for _ in range(4):
                d = b.single_def(l) if l is not None else None
                if d and d[2] == "A" and d[3][2][0] == "use" and d[3][2][1][0] in ("cp", "mv") and len(d[3][2][1][1]) == 1:
                    l = d[3][2][1][1][0]
                else:
                    break
            return l
        j, c, le = root(j), root(c), root(le)
        if j is None or c is None or j != le or len(b.defs().get(c, [])) != 1:
            return False
        rd = self._reaching_def(j, ds[0], ds[1] if isinstance(ds[1], int) else 0)
        if rd is None:
            return False
        rv = rd[2][2]
        # j = (AddWithOverflow(j, c)).0  or  j = Add(j, c)
        if rv[0] == "use" and rv[1][0] in ("cp", "mv") and len(rv[1][1]) == 2:
            dd = b.single_def(rv[1][1][0])
            rv = dd[3][2] if dd and dd[2] == "A" else rv
        if rv[0] == "bin" and rv[1] in ("Add", "AddWithOverflow", "AddUnchecked"):
            a0, a1 = root(operand_local(rv[2])), root(operand_local(rv[3]))
            return (a0 == j and a1 == c) or (a1 == j and a0 == c)
        return False

    def unwrap_call(self, bi, t, dwo):
        args = t[2]
        b = self.body
        l = operand_local(args[0])
        prod = None
        d = b.single_def(l) if l is not None else None
        if d and d[2] == "call":
            prod = d[3]
        if prod is not None and "TryFrom<&'a" in prod[1]["f"] and "try_from" in prod[1]["f"]:
            # <&[T;N]>::try_from(slice).unwrap(): needs len(slice) == N
            n = None
            td = self.f.ty(b.local_ty(t[3][0])) if len(t[3]) == 1 else None
            if td is not None and td.get("k") in ("ref", "ptr"):
                inner = self.f.ty(td["to"])
                if inner.get("k") == "array" and isinstance(inner.get("len"), int):
                    n = inner["len"]
            s = Site(self.fn, bi, "tryfrom", dwo("try_from:%s" % self.name_of_place_root(prod[2][0])), t[5], t[6])
            if n is None:
                s.why = "array length not monomorphic"
            else:
                L = self.slice_lenval(prod[2][0], d[0])
                self.need_eq(s, L, n, "try_from(..).unwrap()")
            self.sites.append(s)
            return
        if prod is not None and not prod[1]["l"] and re.search(r"TryFrom<(usize|u64|u32|u16|u128|i64|i32|isize)>.*try_from$", prod[1]["f"]) and prod[2]:
            # integer narrowing `u8::try_from(x).unwrap()`: cannot fail when x provably fits the target type
            td = self.f.ty(b.local_ty(t[3][0])) if len(t[3]) == 1 else None
            iv = self.ev.at_block(d[0]).op_ival(prod[2][0], d[0])
            s = Site(self.fn, bi, "unwrap", dwo("unwrap:int try_from"), t[5], t[6], callee=prod[1])
            if td is not None and td.get("k") in ("uint", "int") and iv is not None:
                lo_t = 0 if td["k"] == "uint" else -(1 << (td["bits"] - 1))
                hi_t = (1 << td["bits"]) - 1 if td["k"] == "uint" else (1 << (td["bits"] - 1)) - 1
                if iv[0] >= lo_t and iv[1] <= hi_t:
                    s.status = "discharged"
                    s.why = "value in [%s, %s] fits %s" % (iv[0], iv[1], td.get("s"))
            self.sites.append(s)
            return
        pname = prod[1]["f"].split("::")[-1] if prod is not None else "value"
        if prod is not None and prod[1]["l"]:
            pname = norm_name(prod[1]["f"]).split("::")[-2] + "::" + pname if "::" in norm_name(prod[1]["f"]) else pname
        s = Site(self.fn, bi, "unwrap", dwo("unwrap:%s" % pname), t[5], t[6], callee=prod[1] if prod is not None else None)
        self.sites.append(s)


class Totality:
    def __init__(self, facts):
        self.f = facts
        self.fa = {}
        self.ctx = SuccCtx(facts)
        for fn in facts.fns.values():
            self.fa[fn["id"]] = FnTotality(facts, fn, self.ctx).analyse()
        self.callers = {}
        for fid, a in self.fa.items():
            for (bi, tgt, args, line) in a.calls:
                self.callers.setdefault(tgt["id"], []).append((a, bi, args, line))
        self.refine_private()
        self.propagate()

    def _address_taken(self):
        out = set()

        def scan(o):
            if isinstance(o, list):
                if len(o) >= 2 and o[0] == "fn" and isinstance(o[1], dict) and "id" in o[1]:
                    out.add(o[1]["id"])
                for x in o:
                    scan(x)
        for fn in self.f.fns.values():
            for b in fn["blocks"]:
                for st in b["s"]:
                    scan(st)
                t = b["t"]
                if t[0] == "call":
                    scan(t[2])
        return out

    def refine_private(self):
        """Top-down parameter facts for private functions: a function that is not externally reachable, is never used as
        a value, and still has undischarged obligations is re-analysed under the join, over all its (live) call sites,
        of the argument facts: length interval of each slice argument, value interval of each unsigned integer argument.
        (`fn chunk_helper(chunk: &mut [T])` called with `&mut xx[i..i + blen]`, 1 <= blen <= 200.)"""
        taken = self._address_taken()
        for _round in range(3):
            changed = False
            for fid in list(self.fa.keys()):
                a = self.fa[fid]
                fn = a.fn
                if fn.get("reach") or fid in taken or not self.callers.get(fid) or fn["kind"] == "Closure":
                    continue
                if not any(s.status in ("open", "req") for s in a.sites):
                    continue
                plen, pval = {}, {}
                ok = True
                for p_ in range(1, fn["argc"] + 1):
                    td = self.f.ty(fn["locals"][p_][0])
                    is_slice = td.get("k") in ("ref", "ptr") and self.f.ty(td["to"]).get("k") == "slice"
                    is_uint = td.get("k") == "uint"
                    if not (is_slice or is_uint):
                        continue
                    acc = None
                    for (ca, bi, args, line) in self.callers[fid]:
                        if bi not in ca.live_blocks() or p_ - 1 >= len(args):
                            continue
                        if is_slice:
                            L = ca.slice_lenval(args[p_ - 1], bi)
                            iv = (L.lo, L.hi)
                        else:
                            iv = ca.ev.at_block(bi).op_ival(args[p_ - 1], bi)
                            if iv is None:
                                acc = None
                                break
                        acc = iv if acc is None else (min(acc[0], iv[0]), max(acc[1], iv[1]))
                    if acc is None:
                        continue
                    if is_slice and (acc[0] > 0 or acc[1] != INF):
                        plen[p_] = acc
                    elif is_uint and (acc[0] > 0 or acc[1] < (1 << 62)):
                        pval[p_] = acc
                if (plen or pval) and (plen != a.ev.param_len or pval != a.ev.param_val):
                    na = FnTotality(self.f, fn, self.ctx)
                    na.ev.param_len = plen
                    na.ev.param_val = pval
                    na.analyse()
                    self.fa[fid] = na
                    changed = True
            if not changed:
                break
            self.callers = {}
            for fid, a in self.fa.items():
                for (bi, tgt, args, line) in a.calls:
                    self.callers.setdefault(tgt["id"], []).append((a, bi, args, line))

    def propagate(self):
        """Requirements on parameter slice lengths: discharge at callers or propagate upwards."""
        # reqs[fid] = list of (param, kind, value, origin site)
        work = list(self.fa.keys())
        self.reqs = {fid: [] for fid in self.fa}
        for fid, a in self.fa.items():
            for s in a.sites:
                if s.status == "req":
                    self.reqs[fid].append((s.req[0], s.req[1], s.req[2], s))
        changed = True
        rounds = 0
        self.callreq_sites = {}
        while changed and rounds < 30:
            changed = False
            rounds += 1
            for fid, a in self.fa.items():
                for (bi, tgt, args, line) in a.calls:
                    if bi not in a.live_blocks():
                        continue
                    for (param, kind, value, origin) in list(self.reqs.get(tgt["id"], [])):
                        key = (fid, bi, tgt["id"], param, kind, value)
                        if key in self.callreq_sites:
                            continue
                        if param - 1 >= len(args):
                            continue
                        if kind == "lin":
                            s = Site(a.fn, bi, "callreq", "call:%s:lin" % norm_name(tgt["name"]).split("::")[-1], line)
                            st_, payload = a.lin_at_call(bi, args, value)
                            if st_ == "ok":
                                s.status = "discharged"
                                s.why = "callee %s: linear relation between the arguments holds structurally" % tgt["name"]
                            elif st_ == "req":
                                s.status = "req"
                                s.req = (0, "lin", payload)
                                s.why = "callee %s: linear requirement passed on to the callers" % tgt["name"]
                            else:
                                s.status = "open"
                                s.why = "callee %s: cannot establish the linear relation between the arguments" % tgt["name"]
                            s.callee = origin
                            self.callreq_sites[key] = s
                            a.sites.append(s)
                            if s.status == "req":
                                self.reqs[fid].append((s.req[0], s.req[1], s.req[2], s))
                            changed = True
                            continue
                        if kind == "minp":
                            # len(arg[param]) >= arg[value parameter] + c: evaluate the value argument here
                            vp, cst = value
                            if vp - 1 >= len(args):
                                continue
                            s = Site(a.fn, bi, "callreq", "call:%s:%s>=%s+%d" % (norm_name(tgt["name"]).split("::")[-1],
                                     tgt["locals"][param][1] or "_%d" % param, tgt["locals"][vp][1] or "_%d" % vp, cst), line)
                            L = a.slice_lenval(args[param - 1], bi)
                            iv = a.ev.at_block(bi).op_ival(args[vp - 1], bi)
                            if iv is None or iv[1] == INF or iv[1] >= (1 << 62):
                                lf = a.ev.linform(a.ev.expr_key(args[vp - 1], []))
                                atom = list(lf[0].items())[0] if lf is not None and len(lf[0]) == 1 else None
                                if (atom is not None and atom[1] == 1 and atom[0][0] == "l" and 0 < atom[0][1] <= a.fn["argc"]
                                        and L.sym is not None and L.sym[1] == 0 and lf[1] >= 0):
                                    s.status = "req"
                                    s.req = (L.sym[0], "minp", (atom[0][1], int(lf[1] + cst)))
                                    s.why = "callee %s: requires len >= parameter + %d" % (tgt["name"], lf[1] + cst)
                                else:
                                    s.status = "open"
                                    s.why = "callee %s: offset argument unbounded" % tgt["name"]
                            else:
                                a.need_min(s, L, iv[1] + cst, "callee %s" % tgt["name"])
                            s.callee = origin
                            self.callreq_sites[key] = s
                            a.sites.append(s)
                            if s.status == "req":
                                self.reqs[fid].append((s.req[0], s.req[1], s.req[2], s))
                            changed = True
                            continue
                        s = Site(a.fn, bi, "callreq", "call:%s:%s%s%d" % (norm_name(tgt["name"]).split("::")[-1],
                                 tgt["locals"][param][1] or "_%d" % param, ">=" if kind == "min" else "==", value), line)
                        L = a.slice_lenval(args[param - 1], bi)
                        if kind == "min":
                            a.need_min(s, L, value, "callee %s" % tgt["name"])
                        else:
                            a.need_eq(s, L, value, "callee %s" % tgt["name"])
                        s.callee = origin
                        self.callreq_sites[key] = s
                        a.sites.append(s)
                        if s.status == "req":
                            self.reqs[fid].append((s.req[0], s.req[1], s.req[2], s))
                        changed = True

    def fn_open_sites(self, fid):
        """Sites of this function that no rule discharges.  A 'req' site is discharged iff the function
        is not externally reachable and has at least one caller (each caller carries its own callreq site)."""
        a = self.fa[fid]
        out = []
        for s in a.sites:
            if s.status == "open":
                out.append(s)
            elif s.status == "req":
                if a.fn.get("reach") or not self.callers.get(fid):
                    out.append(s)
        return out


# ---------------------------------------------------------------------------
# evaluation against the reviewed tables
# ---------------------------------------------------------------------------

BULK_KINDS = ("bounds", "range", "copylen", "div", "tryfrom", "callreq")
EXPLICIT_KINDS = ("panic", "unwrap", "stdpanic", "copylen-mismatch")

C19_ENTRY = re.compile(
    r"(set_)?decode[A-Za-z0-9_]*|verify[A-Za-z0-9_]*|ECDH|one_way_map|hash_to_curve|map_to_curve|from_seed|"
    r"update|digest[A-Za-z0-9_]*|finali[sz]e[A-Za-z0-9_]*|reset|hash[A-Za-z0-9_]*|inject|flip|extract|"
    r"[A-Za-z0-9_]*_vartime|x25519[A-Za-z0-9_]*|x448[A-Za-z0-9_]*|assemble_signature|choose|prepare_truncate|"
    r"is_in_subgroup|has_low_order|to_montgomery_u|encode[A-Za-z0-9_]*|from_affine|from_point|get_commitment|"
    r"for_benchmarks_only[A-Za-z0-9_]*")      # raw GLS254 ECDH variants taking peer-point bytes (feature gls254bench)
C10_ENTRY = re.compile(r"(set_)?mul(128|64mu)?_add_mulgen_vartime|verify_helper_vartime")
C11_ENTRY = re.compile(r"split_vartime|split_mu(_odd)?|split_theta|mul_divr_rounded|lagrange[A-Za-z0-9_]*")
C15_ENTRY = re.compile(r".*")  # every public function of the frost modules


def gen_name(n):
    n = norm_name(n)
    n = re.sub(r"frost::[a-z0-9]+::", "frost::*::", n)
    n = re.sub(r"lms::[A-Za-z0-9_]+::", "lms::*::", n)
    n = re.sub(r"ZInt\d+", "ZInt*", n)
    return n


def entries_for(facts, prop):
    out = []
    for fn in facts.fns.values():
        if fn["kind"] == "Closure":
            continue
        item = fn["item"]
        name = norm_name(fn["name"])
        if prop == "C19":
            if fn.get("reach") and C19_ENTRY.fullmatch(item) and not (fn.get("trait") and "fmt::" in fn["trait"]):
                out.append(fn)
        elif prop == "C10":
            if fn.get("reach") and C10_ENTRY.fullmatch(item):
                out.append(fn)
        elif prop == "C11":
            if C11_ENTRY.fullmatch(item) and (fn.get("reach") or "lagrange" in name or "split" in item or "mul_divr" in item):
                out.append(fn)
        elif prop == "C15":
            if fn.get("reach") and name.startswith("crrl::frost::"):
                out.append(fn)
        elif prop == "ALL":
            out.append(fn)
    return out


def scope_from(T, entries):
    """fid -> call path (list of fn names) from some entry, over live call edges."""
    path = {}
    work = []
    for e in entries:
        if e["id"] not in path:
            path[e["id"]] = [e["name"]]
            work.append(e["id"])
    while work:
        fid = work.pop(0)
        a = T.fa[fid]
        live = a.live_blocks()
        for (bi, tgt, args, line) in a.calls:
            if bi not in live:
                continue
            if tgt["id"] not in path:
                path[tgt["id"]] = path[fid] + [tgt["name"]]
                work.append(tgt["id"])
    return path


def load_explicit_counts():
    p = os.path.join(VERIF, "tables", "site_inventory.json")
    if not os.path.exists(p):
        return {}
    with open(p) as fh:
        return json.load(fh).get("explicit_counts", {})


def load_inventory(cfg=None):
    """per-configuration counts when the configuration was frozen (no slack from other configurations), else the
    maximum over the frozen configurations"""
    p = os.path.join(VERIF, "tables", "site_inventory.json")
    if not os.path.exists(p):
        return {}
    with open(p) as fh:
        t = json.load(fh)
    if cfg is not None and cfg in t.get("by_config", {}):
        return t["by_config"][cfg]
    return t["counts"]


def calls_predicate(T, fid, pred_re, avoid_re, memo):
    """Does function fid (transitively) call a function matching pred_re without passing through avoid_re?"""
    if fid in memo:
        return memo[fid]
    memo[fid] = False
    a = T.fa[fid]
    res = False
    for (bi, tgt, args, line) in a.calls:
        n = norm_name(tgt["name"])
        if fullmatch_name(avoid_re, n):
            continue
        if fullmatch_name(pred_re, n) or calls_predicate(T, tgt["id"], pred_re, avoid_re, memo):
            res = True
            break
    memo[fid] = res
    return res


def reaches(T, fid, target_re, memo):
    if fid in memo:
        return memo[fid]
    memo[fid] = False
    a = T.fa[fid]
    res = False
    for (bi, tgt, args, line) in a.calls:
        if fullmatch_name(target_re, norm_name(tgt["name"])) or reaches(T, tgt["id"], target_re, memo):
            res = True
            break
    memo[fid] = res
    return res


def check_caller_established(T, facts, ent, scope_paths, cfg, prop, run):
    """Contradiction rule: every externally reachable function from which the asserting helper is
    reachable must run the establishing predicate on a path that dominates the reaching call."""
    target_re = ent["fn"]
    pred_re = ent["establish"]["predicate"]
    n = 0
    memo_r = {}
    for fid, a in T.fa.items():
        fn = a.fn
        if not fn.get("reach"):
            continue
        if scope_paths is not None and fid not in scope_paths:
            continue
        if not reaches(T, fid, target_re, memo_r):
            continue
        n += 1
        body = a.body
        # calls in this body that reach the target, and calls that establish the predicate
        reach_blocks = []
        est_blocks = []
        memo_p = {}
        for (bi, tgt, args, line) in a.calls:
            tn = norm_name(tgt["name"])
            if fullmatch_name(target_re, tn) or reaches(T, tgt["id"], target_re, memo_r):
                reach_blocks.append((bi, tgt["name"], line))
            if fullmatch_name(pred_re, tn) or (not fullmatch_name(target_re, tn) and calls_predicate(T, tgt["id"], pred_re, target_re, memo_p)):
                if not (fullmatch_name(target_re, tn) or reaches(T, tgt["id"], target_re, memo_r)):
                    est_blocks.append(bi)
        loops = body.loops()
        ok_all = True
        bad = None
        for (rb, tname, line) in reach_blocks:
            ok = False
            for eb in est_blocks:
                cands = [eb] + [h for h, blks in loops.items() if eb in blks]
                if any(body.dominates(c, rb) for c in cands):
                    ok = True
                    break
            if not ok:
                ok_all = False
                bad = (tname, line)
                break
        run.oblige(ok=ok_all)
        if not ok_all:
            run.add(Finding("R19a-caller", "%s|%s" % (gen_name(fn["name"]), ent["disc"][:60]),
                            "totality: pub fn %s reaches `%s` in %s via %s without first establishing it (no dominating call to %s); "
                            "an unchecked caller-supplied list makes the assert fire" % (
                                fn["name"], ent["disc"].replace("\\", ""), ent["fn"], bad[0], pred_re),
                            config=cfg, site="%s:%s" % (fn["file"], bad[1]), path=[fn["name"], bad[0]], prop=prop))
    return n


def run_totality(facts, run, prop):
    T = Totality(facts)
    cfg = facts.config
    table = load_table()["entries"]
    inv = load_inventory(cfg)
    entries = entries_for(facts, prop)
    paths = scope_from(T, entries)
    used = set()
    n_sites = 0
    n_explicit = 0
    closure_undecided = []
    pending_explicit = []
    bulk_counts = {}
    bulk_sites = {}
    moved = []
    for fid, path in sorted(paths.items(), key=lambda kv: kv[1][-1]):
        a = T.fa[fid]
        gname = gen_name(a.fn["name"])
        for s in a.sites:
            n_sites += 1
            if s.status == "discharged":
                run.oblige()
                if n_sites % 211 == 0:
                    run.sample("%s @%s %s: %s" % (a.fn["name"], s.line, s.kind, s.why))
        for s in T.fn_open_sites(fid):
            if a.fn["kind"] == "Closure" and (s.kind in BULK_KINDS or s.kind == "copylen-mismatch"):
                # inside a closure the facts about its parameters (the items an iterator adaptor passes) and about what it
                # captures are not available to the prover: index / range / length obligations there are undecided
                closure_undecided.append("%s %s" % (a.fn["name"], s.disc))
                continue
            if s.kind in EXPLICIT_KINDS or s.kind.startswith("assert-"):
                n_explicit += 1
                ent = None
                for i, e in enumerate(table):
                    if e["kind"] == s.kind and fullmatch_name(e["fn"], norm_name(a.fn["name"])) and re.fullmatch(e["disc"], s.disc):
                        ent = e
                        used.add(i)
                        break
                if ent is None:
                    # second level: the site moved into a helper of the same module (extract-function refactor):
                    # same discriminator, and the entry's function pattern still matches a function of that module
                    # from which this function is reachable
                    mod = "::".join(norm_name(a.fn["name"]).split("::")[:2])
                    base_disc = re.sub(r"#\d+$", "", s.disc)
                    for i, e in enumerate(table):
                        if e["kind"] != s.kind or not (re.fullmatch(e["disc"], s.disc) or re.fullmatch(e["disc"], base_disc)):
                            continue
                        if any(re.fullmatch(e["fn"], norm_name(x)) and norm_name(x).startswith(mod + "::") for x in path):
                            ent = e
                            used.add(i)
                            moved.append("%s: `%s` now in %s" % (e["fn"][:50], s.disc, a.fn["name"]))
                            break
                if ent is None:
                    pending_explicit.append((fid, a, s, gname, path))
                    continue
                if ent is None:
                    run.oblige(ok=False)
                    run.add(Finding("R19a", "%s|%s|%s" % (gname, s.kind, s.disc),
                                    "totality: unreviewed explicit panic site `%s` in %s (%s:%s), reachable from %s" % (
                                        s.disc, a.fn["name"], a.fn["file"], s.line, path[0]),
                                    config=cfg, site="%s:%s" % (a.fn["file"], s.line), path=path, prop=prop))
                else:
                    run.oblige()
            else:
                key = "%s|%s" % (gname, s.kind)
                bulk_counts[(fid, key)] = bulk_counts.get((fid, key), 0) + 1
                bulk_sites.setdefault((fid, key), []).append(s)
    # Explicit sites that matched no entry by (function, kind, text): before reporting them as new, let an entry that
    # matched nothing on this tree stand in -- the same site whose assertion text was rewritten (`a >= 1 && a <= 32` ->
    # `(1..=32).contains(&a)`, a renamed variable in the message) or whose private function was renamed.  One entry
    # absorbs one site; the kind must agree; the entry's function pattern must match the site's function, or match no
    # function of the tree any more and share its module prefix.
    if pending_explicit:
        frozen = load_explicit_counts()
        present = set(gen_name(x["name"]) for x in facts.fns.values())
        cur = {}
        for fid_ in paths:
            a_ = T.fa[fid_]
            for s_ in T.fn_open_sites(fid_):
                if s_.kind in EXPLICIT_KINDS or s_.kind.startswith("assert-"):
                    k_ = "%s|%s" % (gen_name(a_.fn["name"]), s_.kind)
                    cur[k_] = cur.get(k_, 0) + 1
        lent = {}
        for (fid, a, s, gname, path) in pending_explicit:
            key = "%s|%s" % (gname, s.kind)
            allowed = frozen.get(key)
            if allowed is None:
                # the function is new under this name: a reviewed function of the same module and kind that no longer
                # exists (renamed / moved) lends its count, once
                mod = "::".join(gname.split("::")[:2])
                for k_, v_ in sorted(frozen.items()):
                    kf, kk = k_.split("|")
                    if kk == s.kind and kf.startswith(mod + "::") and kf not in present and lent.get(k_, key) == key and v_ >= cur.get(key, 0):
                        allowed = v_
                        lent[k_] = key
                        break
            if allowed is not None and cur.get(key, 0) <= allowed:
                moved.append("%s: `%s` in %s: the function has no more %s sites than on the reviewed tree (%d): assertion text or "
                             "function name changed" % (s.kind, s.disc[:60], a.fn["name"], s.kind, allowed))
                run.oblige()
                continue
            run.oblige(ok=False)
            run.add(Finding("R19a", "%s|%s|%s" % (gname, s.kind, s.disc),
                            "totality: unreviewed explicit panic site `%s` in %s (%s:%s), reachable from %s" % (
                                s.disc, a.fn["name"], a.fn["file"], s.line, path[0]),
                            config=cfg, site="%s:%s" % (a.fn["file"], s.line), path=path, prop=prop))
    # module-level totals: moving code between functions of one module must not alarm
    def modkey(key):
        # the module = leading lower-case path segments (types start with an upper-case letter); for a free function
        # the last segment is the function itself
        fnname, kind = key.split("|")
        segs = fnname.split("::")
        mod = []
        for sg in segs:
            if sg[:1].isupper() or sg.startswith("<"):
                break
            mod.append(sg)
        if len(mod) == len(segs):
            mod = mod[:-1]
        return "::".join(mod) + "|" + kind
    mod_allowed = {}
    scope_gnames = set(gen_name(T.fa[fid_].fn["name"]) for fid_ in paths)
    for k_, v_ in inv.items():
        if k_.split("|")[0] not in scope_gnames:
            continue        # only functions this check looks at may lend their allowance to a moved site
        mod_allowed[modkey(k_)] = mod_allowed.get(modkey(k_), 0) + v_
    mod_have = {}
    per_key_max = {}
    for (fid, key), cnt in bulk_counts.items():
        per_key_max[key] = max(per_key_max.get(key, 0), cnt)
    for key, cnt in per_key_max.items():
        mod_have[modkey(key)] = mod_have.get(modkey(key), 0) + cnt
    mod_allowed_all, mod_have_all = {}, {}
    for k_, v_ in mod_allowed.items():
        mod_allowed_all[k_.split("|")[0]] = mod_allowed_all.get(k_.split("|")[0], 0) + v_
    for k_, v_ in mod_have.items():
        mod_have_all[k_.split("|")[0]] = mod_have_all.get(k_.split("|")[0], 0) + v_
    present = set(gen_name(x["name"]) for x in facts.fns.values())
    for (fid, key), cnt in sorted(bulk_counts.items(), key=lambda kv: kv[0][1]):
        allowed = inv.get(key, 0)
        a = T.fa[fid]
        if cnt > allowed:
            # the function was moved (into a private sub-module, another impl block): the reviewed entry of a function
            # with the same name and kind in the same top-level module, which no longer exists under its old path
            fnname, kind = key.split("|")
            last = fnname.split("::")[-1]
            top = "::".join(fnname.split("::")[:2])
            for k_, v_ in inv.items():
                kf, kk = k_.split("|")
                if kk == kind and kf != fnname and kf.split("::")[-1] == last and kf.startswith(top + "::") and kf not in present and v_ >= cnt:
                    allowed = v_
                    moved.append("%s: reviewed as %s (moved)" % (key, kf))
                    break
        if cnt > allowed and mod_have.get(modkey(key), 0) <= mod_allowed.get(modkey(key), 0):
            # redistribution inside the module, total not increased
            moved.append("%s: %d site(s) redistributed within %s" % (key, cnt, modkey(key)))
            run.oblige(cnt)
            continue
        mk = modkey(key).split("|")[0]
        if cnt > allowed and mod_have_all.get(mk, 0) <= mod_allowed_all.get(mk, 0):
            # the same obligations under another kind: code moved into a private helper turns the helper's index / range
            # obligations into call-site requirements of its caller; the module's total did not grow
            moved.append("%s: %d site(s) re-classified within %s (module total %d <= %d)" % (key, cnt, mk, mod_have_all.get(mk, 0), mod_allowed_all.get(mk, 0)))
            run.oblige(cnt)
            continue
        if cnt > allowed:
            run.oblige(ok=False)
            ss = bulk_sites[(fid, key)]
            ss.sort(key=lambda s: (s.status != "req", str(s.line)))
            s0 = ss[0]
            run.add(Finding("R19b", key,
                            "totality: %d undischarged %s obligation(s) in %s where the reviewed inventory allows %d; e.g. %s:%s %s -- %s" % (
                                cnt, key.split("|")[1], a.fn["name"], allowed, a.fn["file"], s0.line, s0.disc, s0.why),
                            config=cfg, site="%s:%s" % (a.fn["file"], s0.line), path=paths[fid], prop=prop))
        else:
            run.oblige(cnt)
    # documented-precondition anchors and caller-established rules
    for i, e in enumerate(table):
        if e.get("class") == "documented" and e.get("doc_fn") and i in used:
            ok = False
            for fn in facts.fns.values():
                if re.fullmatch(e["doc_fn"], norm_name(fn["name"])) and re.search(e["doc_re"], fn.get("doc", ""), re.S):
                    ok = True
                    break
            run.oblige(ok=ok)
            if not ok:
                run.add(Finding("R19a-doc", e["fn"] + "|" + e["disc"],
                                "totality: panic site %s / %s is classified 'documented precondition' but no function matching %s carries rustdoc matching /%s/ any more" % (
                                    e["fn"], e["disc"], e["doc_fn"], e["doc_re"]), config=cfg, prop=prop))
        if e.get("class") == "caller-established":
            # applies when the asserting function is in scope
            in_scope = any(fullmatch_name(e["fn"], norm_name(T.fa[fid].fn["name"])) for fid in paths)
            if in_scope:
                check_caller_established(T, facts, e, paths if prop != "ALL" else None, cfg, prop, run)
    run.stats = getattr(run, "stats", {})
    run.stats.update(entries=len(entries), fns_in_scope=len(paths), sites=n_sites, explicit_sites=n_explicit, closure_undecided=closure_undecided[:20],
                     table_entries_used=len(used), moved=moved[:20])
    return T


def freeze_inventory(configs):
    """Regenerates tables/site_inventory.json from the current tree (development-time only)."""
    from . import facts as factsmod
    counts = {}
    by_config = {}
    explicit = {}
    for c in configs:
        f = factsmod.load(c)
        T = Totality(f)
        mine = by_config.setdefault(c, {})
        for fid, a in T.fa.items():
            per = {}
            for s in T.fn_open_sites(fid):
                if s.kind in EXPLICIT_KINDS or s.kind.startswith("assert-"):
                    key = "%s|%s" % (gen_name(a.fn["name"]), s.kind)
                    per[key] = per.get(key, 0) + 1
            for k, v in per.items():
                explicit[k] = max(explicit.get(k, 0), v)
        for fid, a in T.fa.items():
            per = {}
            for s in T.fn_open_sites(fid):
                if s.kind in EXPLICIT_KINDS or s.kind.startswith("assert-"):
                    continue
                key = "%s|%s" % (gen_name(a.fn["name"]), s.kind)
                per[key] = per.get(key, 0) + 1
            for k, v in per.items():
                counts[k] = max(counts.get(k, 0), v)
                mine[k] = max(mine.get(k, 0), v)
    return counts, by_config, explicit
