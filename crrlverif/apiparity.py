"""E6 apiparity (C18): the selectable backends expose one interface and agree on sibling code shape.

P1 signature parity: every externally reachable function of a backend type (GF255, ModInt256, GF448, GFb127,
   Zu256, ...) in the reference configuration exists, with the same signature modulo module paths, in
   every other configuration (supersets allowed; reviewed exceptions in tables/apiparity.json).
P4 bit addressing: when a value k is used both as a word index `k >> S` and as a bit offset `k & M` (S <= 7,
   M <= 255), M must be 2^S - 1 -- sibling implementations of get_bit/set_bit/xor_bit and of digit recoding must
   agree on this; a mismatch is a contradiction in the code itself.
P5 sibling agreement on small accessors: for functions present in several backends with <= 12 basic blocks and
   no SIMD intrinsics, the multiset of (binary operator, small constant) pairs scaled by the limb width must match."""
import json
import os
import re

from .mir import Body, operand_local, const_int
from .report import Finding
from .ctflow import norm_name

VERIF = os.path.dirname(os.path.dirname(os.path.abspath(__file__)))

BACKEND_TYPES = ("GF255", "GF255NotReduced", "ModInt256", "ModInt256ct", "GFsecp256k1", "GF448", "GFb127", "GFb254",
                 "Zu128", "Zu256", "Zu384")


def load_table():
    p = os.path.join(VERIF, "tables", "apiparity.json")
    if not os.path.exists(p):
        return {"p1_exceptions": []}
    return json.load(open(p))


def strip_paths(sig):
    s = re.sub(r"(?:[a-z_][a-z0-9_]*::)+(?=[A-Z])", "", sig)
    s = re.sub(r"'[a-z_]+ ", "", s)
    s = re.sub(r"'[a-z_]+", "", s)
    # the 64-bit and 32-bit GF255 backends define `type GF255NotReduced<MQ> = GF255<MQ>`; the 51-bit one a distinct type
    s = s.replace("GF255NotReduced", "GF255")
    s = s.replace("ModInt256ct", "ModInt256")
    return s


def api_map(facts):
    out = {}
    for fn in facts.fns.values():
        if fn["kind"] != "AssocFn" or not fn.get("reach"):
            continue
        adt = fn.get("self_adt") or ""
        short = norm_name(adt).split("::")[-1]
        if short not in BACKEND_TYPES:
            continue
        if not norm_name(adt).startswith("crrl::backend::") or not norm_name(fn["name"]).startswith("crrl::backend::"):
            continue
        if "<" in fn.get("self_ty", "") and not any(g[1] == "const" for g in fn.get("generics", [])) and "<" in adt:
            pass
        if re.search(r"<[^>]*\d", fn.get("self_ty", "")) and not any(g[1] == "const" for g in fn.get("generics", [])):
            # inherent / trait impl on one concrete instantiation (e.g. `impl GFp256 { fn encode }`): not generic backend API
            continue
        tr = fn.get("trait") or ""
        if "fmt::" in tr or tr.endswith("Clone") or tr.endswith("Copy"):
            continue
        sty = strip_paths(fn.get("self_ty", ""))
        key = "%s::%s%s" % (short, ("<%s for %s>::" % (strip_paths(tr), sty)) if tr else "", fn["item"])
        out[key] = strip_paths(fn.get("sig", ""))
    return out


def run_p1(all_facts, run, prop="C18"):
    """all_facts: {config: Facts}; reference = x64 (or the first)."""
    tab = load_table()
    exc = [re.compile(x["key"]) for x in tab.get("p1_exceptions", [])]
    ref_cfg = "x64" if "x64" in all_facts else sorted(all_facts)[0]
    ref = api_map(all_facts[ref_cfg])
    n = 0
    for cfg, f in sorted(all_facts.items()):
        if cfg == ref_cfg:
            continue
        m = api_map(f)
        # which backend types exist in this configuration at all
        present_types = set(k.split("::")[0] for k in m)
        for key, sig in sorted(ref.items()):
            t = key.split("::")[0]
            if t not in present_types:
                continue
            if any(p.fullmatch(key) for p in exc):
                continue
            n += 1
            if key not in m:
                run.oblige(ok=False)
                run.add(Finding("P1", key, "apiparity P1: %s %s exists in configuration %s but not in %s" % (key, sig, ref_cfg, cfg),
                                config=cfg, prop=prop))
            elif m[key] != sig:
                run.oblige(ok=False)
                run.add(Finding("P1", key + "|sig", "apiparity P1: signature of %s differs: %s (%s) vs %s (%s)" % (key, sig, ref_cfg, m[key], cfg),
                                config=cfg, prop=prop))
            else:
                run.oblige()
                if n % 401 == 0:
                    run.sample("P1 %s: %s identical in %s and %s" % (key, sig, ref_cfg, cfg))
    return n, len(ref)


def _root(body, l):
    for _ in range(8):
        d = body.single_def(l)
        if d and d[2] == "A" and d[3][2][0] == "use" and d[3][2][1][0] in ("cp", "mv") and len(d[3][2][1][1]) == 1:
            l = d[3][2][1][1][0]
        else:
            break
    return l


def run_p4(facts, run, prop="C18"):
    cfg = facts.config
    n = 0
    for fn in facts.fns.values():
        body = Body(fn)
        sh, an, lines = {}, {}, {}
        for bi in body.reach:
            for s in body.blocks[bi]["s"]:
                if s[0] == "A" and s[2][0] == "bin" and s[2][1] in ("Shr", "BitAnd"):
                    la = operand_local(s[2][2])
                    c = const_int(s[2][3])
                    if la is None or c is None:
                        continue
                    r = _root(body, la)
                    if s[2][1] == "Shr" and 1 <= c <= 7:
                        sh.setdefault(r, set()).add(c)
                    elif s[2][1] == "BitAnd" and c <= 255:
                        an.setdefault(r, set()).add(c)
                        lines[r] = s[3]
        for r in sh:
            if r not in an:
                continue
            n += 1
            ok = any(m == (1 << s_) - 1 for s_ in sh[r] for m in an[r])
            run.oblige(ok=ok)
            if not ok:
                nm = fn["locals"][r][1] or "_%d" % r
                run.add(Finding("P4", "%s|%s" % (norm_name(fn["name"]), nm),
                                "apiparity P4: in %s (%s:%s) `%s` is split as `%s >> %s` and `%s & %s`: the mask must be %s "
                                "(word index and bit offset disagree)" % (
                                    fn["name"], fn["file"], lines.get(r), nm, nm, sorted(sh[r]), nm, sorted(an[r]),
                                    " or ".join(str((1 << s_) - 1) for s_ in sorted(sh[r]))),
                                config=cfg, site="%s:%s" % (fn["file"], lines.get(r)), prop=prop))
            elif n % 37 == 0:
                run.sample("P4 %s: %s >> %s with & %s (config %s)" % (fn["name"], fn["locals"][r][1], sorted(sh[r]), sorted(an[r]), cfg))
    run.stats = getattr(run, "stats", {})
    run.stats.update(p4_pairs=n)
    if n < 60:
        run.oblige(ok=False)
        run.add(Finding("P4", "anchor", "apiparity P4: only %d index/offset pairs found (floor 60)" % n, config=cfg, prop=prop))
    return n


# ---------------------------------------------------------------------------
# P5: sibling skeleton agreement between backends
# ---------------------------------------------------------------------------

def _rootname(body, fn, op):
    if op[0] not in ("cp", "mv"):
        return "k"
    l = op[1][0]
    for _ in range(10):
        if l != 0 and l <= fn["argc"]:
            return "p%d" % l
        n = fn["locals"][l][1]
        if n:
            return "v:" + n
        d = body.single_def(l)
        if not d:
            return "_"
        if d[2] == "A":
            rv = d[3][2]
            if rv[0] in ("ref", "rawptr"):
                l = rv[2][0]
            elif rv[0] == "use" and rv[1][0] in ("cp", "mv"):
                l = rv[1][1][0]
            elif rv[0] == "cast" and rv[2][0] in ("cp", "mv"):
                l = rv[2][1][0]
            else:
                return "_"
        elif d[2] == "call":
            return "r:" + d[3][1]["f"].split("::")[-1]
        else:
            return "_"
    return "_"


def skeletons(facts):
    """(type, item, trait) -> (reachable block count, [(callee item, alpha-renamed arg roots)], fn)."""
    out = {}
    for fn in facts.fns.values():
        adt = norm_name(fn.get("self_adt") or "").split("::")[-1]
        if not norm_name(fn["name"]).startswith("crrl::backend::") or not adt or fn["kind"] == "Closure":
            continue
        body = Body(fn)
        seq = []
        ren = {}
        for bi in sorted(body.reach):
            t = body.blocks[bi]["t"]
            if t[0] == "call" and t[1]["l"]:
                roots = []
                for a in t[2]:
                    r = _rootname(body, fn, a)
                    if r.startswith("v:"):
                        r = ren.setdefault(r, "v%d" % len(ren))
                    roots.append(r)
                seq.append((t[1]["f"].split("::")[-1], tuple(roots)))
        out[(adt, fn["item"], fn.get("trait") or "")] = (len(body.reach), seq, fn)
    return out


def run_p5(all_facts, run, prop="C18"):
    tab = load_table()
    exc = [re.compile(x["key"]) for x in tab.get("p5_exceptions", [])]
    ref_cfg = "x64" if "x64" in all_facts else sorted(all_facts)[0]
    ref = skeletons(all_facts[ref_cfg])
    n = 0
    for cfg, f in sorted(all_facts.items()):
        if cfg == ref_cfg:
            continue
        sk = skeletons(f)
        for k, (nb, seq, fn) in sorted(sk.items()):
            if k not in ref or not seq:
                continue
            rnb, rseq, rfn = ref[k]
            if rfn["file"] == fn["file"]:
                continue   # same source file in both configurations: nothing to compare
            if rnb != nb or [x[0] for x in rseq] != [x[0] for x in seq]:
                continue   # different algorithm shape: siblings are not comparable
            n += 1
            key = "%s::%s" % (k[0], k[1])
            if rseq == seq or any(p.fullmatch(key) for p in exc):
                run.oblige()
                continue
            d = [(i, x, y) for i, (x, y) in enumerate(zip(rseq, seq)) if x != y][0]
            run.oblige(ok=False)
            run.add(Finding("P5", "%s|%s" % (key, d[1][0]),
                            "apiparity P5: sibling implementations of %s have the same shape (%d blocks, same call sequence) but call #%d "
                            "`%s` takes operands %s in %s (%s) and %s in %s (%s)" % (
                                key, nb, d[0], d[1][0], list(d[1][1]), ref_cfg, rfn["file"], list(d[2][1]), cfg, fn["file"]),
                            config=cfg, site="%s:%s" % (fn["file"], fn["line"]), prop=prop))
    return n


# ---------------------------------------------------------------------------
# P6: siblings that call the same set of own-type methods call each of them equally often
# ---------------------------------------------------------------------------

def _own_calls(facts):
    import collections
    out = {}
    for fn in facts.fns.values():
        adt = norm_name(fn.get("self_adt") or "").split("::")[-1]
        if not norm_name(fn["name"]).startswith("crrl::backend::") or not adt or fn["kind"] == "Closure":
            continue
        body = Body(fn)
        c = collections.Counter()
        for bi in body.reach:
            t = body.blocks[bi]["t"]
            if t[0] == "call" and t[1].get("l"):
                cal = facts.fns.get(t[1].get("id"))
                if cal is not None and norm_name(cal.get("self_adt") or "").split("::")[-1] == adt:
                    c[cal["item"]] += 1
        out[(adt, fn["item"], fn.get("trait") or "")] = (c, fn, len(body.loops()))
    return out


def run_p6(all_facts, run, prop="C18"):
    """The same function of the same type in two backends (different source files): when both call the same set of the
    type's own methods, the number of call sites per method must agree -- a dropped `set_cond` / `iszero` fix-up in one
    backend is a disagreement between siblings.  Reviewed exceptions: tables/apiparity.json p6_exceptions."""
    tab = load_table()
    exc = [re.compile(x["key"]) for x in tab.get("p6_exceptions", [])]
    ref_cfg = "x64" if "x64" in all_facts else sorted(all_facts)[0]
    ref = _own_calls(all_facts[ref_cfg])
    n = 0
    for cfg, f in sorted(all_facts.items()):
        if cfg == ref_cfg:
            continue
        for k, (c, fn, nloops) in sorted(_own_calls(f).items()):
            if k not in ref:
                continue
            rc, rfn, rloops = ref[k]
            if rfn["file"] == fn["file"] or set(rc) != set(c) or not c:
                continue
            if nloops != rloops:
                continue      # one side unrolled / re-rolled a loop: static call-site counts are not comparable
            n += 1
            key = "%s::%s" % (k[0], k[1])
            if rc == c or any(p.fullmatch(key) for p in exc):
                run.oblige()
                continue
            diff = {x: (rc[x], c[x]) for x in rc if rc[x] != c[x]}
            run.oblige(ok=False)
            run.add(Finding("P6", "%s|%s" % (key, ",".join(sorted(diff))),
                            "apiparity P6: sibling implementations of %s call the same own-type methods, but not equally often: %s "
                            "(call sites in %s [%s] vs %s [%s])" % (
                                key, ", ".join("%s %d vs %d" % (x, a, b_) for x, (a, b_) in sorted(diff.items())),
                                ref_cfg, rfn["file"], cfg, fn["file"]),
                            config=cfg, site="%s:%s" % (fn["file"], fn["line"]), prop=prop))
    return n
