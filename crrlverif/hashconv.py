"""G15 hash-to-integer placement (ECDSA): `sign_hash`, `verify_hash` and `verify_trunc_hash` take the LEFTMOST bytes of the caller's
hash value and place them right-aligned in the scalar buffer (hence all in the same way).

Each function's hash parameter (a public-API position: sign_hash #2, verify_hash #3, verify_trunc_hash #4, counting self)
is followed through `copy_from_slice` calls, in the function itself and in private callees that receive the whole slice;
every copy is described as (destination range inside a local buffer, source range inside the hash), caller-relative
(descr.Describer), with the buffer's and parameter's names erased.  Every described copy must read the hash from offset 0 and
write either the whole buffer from a fixed-length prefix or at `n - len` / `n - min(len, n)`; a copy that cannot be described (an
idiom the describer does not know, a loop) is *undecided* and takes no part.

Necessary condition of C08 / C13: a signature made over hash h verifies over the same h only if signer and verifiers convert h to
the same integer; `tmp[..len]` (left-aligned) in one of them, or `hv[len-32..]` (last instead of first 32 bytes), changes the
integer for every hash length other than 32.  Decides the agreement of the byte placement, not bits2int itself."""
from .mir import Body
from .absint import FnEval
from . import descr
from .report import Finding
from .ctflow import norm_name

HASH_PARAM = {"sign_hash": 2, "verify_hash": 3, "verify_trunc_hash": 4}


def _erase(D, p):
    """descriptor with the parameter index replaced by 'H' and local names by 'B'; None when it mentions another parameter"""
    if isinstance(D, tuple):
        if D and D[0] == "p":
            if D[1] != p:
                raise ValueError
            return ("H",) + tuple(D[2:])
        if D and D[0] == "l":
            return ("B",)
        return tuple(_erase(x, p) for x in D)
    return D


def _unknown(D):
    if isinstance(D, tuple):
        if len(D) == 4 and D[0] == "sub" and D[2] is None:
            return True
        return any(_unknown(x) for x in D)
    return False


def _mentions(D, p):
    if isinstance(D, tuple):
        if D and D[0] == "p" and D[1] == p:
            return True
        return any(_mentions(x, p) for x in D)
    return False


def conv(facts, fn, p, depth=0):
    """-> (set of (dest, src) copies fed by parameter p, decided?)"""
    b = Body(fn)
    d = descr.Describer(facts, b)
    out = set()
    ok = True
    for bi in b.reach:
        t = b.blocks[bi]["t"]
        if t[0] != "call":
            continue
        name = t[1]["f"]
        if name.endswith("::copy_from_slice") and len(t[2]) == 2:
            src = d.slice_of(t[2][1])
            if src is None or not _mentions(src, p):
                if src is None:
                    # an undescribed source: only a problem when it may come from the hash; be conservative
                    pass
                continue
            dst = d.slice_of(t[2][0])
            if dst is None:
                ok = False
                continue
            try:
                out.add((_erase(dst, p), _erase(src, p)))
            except ValueError:
                ok = False
        elif t[1].get("l") and depth < 2:
            tgt = facts.fns.get(t[1]["id"])
            if tgt is None or tgt.get("reach"):
                continue
            for i, a in enumerate(t[2]):
                S = d.slice_of(a)
                if S == ("p", p, 0, None):
                    sub, sok = conv(facts, tgt, i + 1, depth + 1)
                    out |= sub
                    ok = ok and sok
    return out, ok


def _src_start(S):
    """start offset of a source range inside the hash: 0, a value descriptor, or 'unknown'"""
    if S[0] == "H":
        return ("k", S[1])
    if S[0] == "subv" and S[1][0] == "H" and S[1][1] == 0:
        return S[2]
    if S[0] == "sub" and S[1][0] == "H" and S[1][1] == 0:
        return ("k", S[2]) if S[2] is not None else "unknown"
    return "unknown"


def _fixed_len(S):
    if S[0] == "H" and S[2] is not None:
        return S[2] - S[1]
    return None


def _right_aligned(E):
    """k when the destination start is `k - len(H)` or `k - min(len(H), k)`"""
    if not (isinstance(E, tuple) and len(E) == 4 and E[0] == "bin" and E[1] == "Sub" and E[2][0] == "k"):
        return None
    k = E[2][1]
    r = E[3]
    whole = ("len", ("H", 0, None))
    if r == whole:
        return k
    if r[0] == "bin" and r[1] == "Min" and set([r[2], r[3]]) == set([whole, ("k", k)]):
        return k
    return None


def judge(copies):
    """-> (verdicts, n_decided); a verdict is (ok, text).  bits2int takes the LEFTMOST min(len, k) bytes of the hash and
    places them right-aligned in the k-byte big-endian buffer."""
    out = []
    n = 0
    for dst, src in sorted(copies, key=str):
        st = _src_start(src)
        if st == "unknown":
            continue
        if st != ("k", 0):
            n += 1
            out.append((False, "a copy takes the hash bytes from offset %s, not from its first byte" % (descr.render_value(st, None).replace("?", "hash") if st[0] != "k" else st[1])))
            continue
        if dst == ("B",):
            fl = _fixed_len(src)
            if fl is None:
                continue
            n += 1
            out.append((True, "whole %d-byte buffer <- first %d bytes" % (fl, fl)))
            continue
        if dst[0] == "subv" and dst[1] == ("B",):
            k = _right_aligned(dst[2])
            if k is not None:
                n += 1
                out.append((True, "right-aligned in %d bytes" % k))
                continue
            if dst[2] == ("k", 0) and _fixed_len(src) is None:
                n += 1
                out.append((False, "a hash shorter than the buffer is placed at the START of the buffer (left-aligned), not right-aligned"))
                continue
        if dst[0] == "sub" and dst[1] == ("B",) and dst[2] == 0 and _fixed_len(src) is None:
            n += 1
            out.append((False, "a hash shorter than the buffer is placed at the START of the buffer (left-aligned), not right-aligned"))
            continue
    return out, n


def run_hashconv(facts, run, prop):
    cfg = facts.config
    n_fns = 0
    for fn in sorted(facts.fns.values(), key=lambda x: x["name"]):
        if not (fn["item"] in HASH_PARAM and fn.get("reach") and fn["file"].startswith("src/")):
            continue
        p = HASH_PARAM[fn["item"]]
        if p > fn["argc"]:
            continue
        td = facts.ty(fn["locals"][p][0])
        if not (td.get("k") in ("ref", "ptr") and facts.ty(td["to"]).get("k") == "slice"):
            continue
        c, _ok = conv(facts, fn, p)
        verdicts, n = judge(c)
        if n == 0:
            continue            # nothing describable: undecided
        n_fns += 1
        bad = [v for v in verdicts if not v[0]]
        run.oblige(ok=not bad)
        if bad:
            run.add(Finding("G15", "%s|hashconv" % norm_name(fn["name"]),
                            "gates G15: %s (%s:%s) converts its hash argument to an integer differently from bits2int (leftmost "
                            "min(len, n) bytes, right-aligned): %s" % (fn["name"], fn["file"], fn["line"], bad[0][1]),
                            config=cfg, site="%s:%s" % (fn["file"], fn["line"]), prop=prop))
        elif n_fns % 2 == 1:
            run.sample("G15 %s: %s" % (fn["name"], "; ".join(v[1] for v in verdicts)))
    run.stats = getattr(run, "stats", {})
    run.stats.update(g15_functions=n_fns)
    return n_fns
