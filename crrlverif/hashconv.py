"""G15 hash-to-integer agreement (ECDSA): within one curve module, `sign_hash`, `verify_hash` and `verify_trunc_hash` place the
bytes of the caller's hash value into the 32-byte scalar buffer in the same way.

Each function's hash parameter (a public-API position: sign_hash #2, verify_hash #3, verify_trunc_hash #4, counting self)
is followed through `copy_from_slice` calls, in the function itself and in private callees that receive the whole slice;
every copy is described as (destination range inside a local buffer, source range inside the hash), caller-relative
(descr.Describer), with the buffer's and parameter's names erased.  The sets of copies of the siblings must be equal.  A sibling
whose copies cannot all be described (an idiom the describer does not know, a loop) is *undecided* and takes no part.

Necessary condition of C08 / C13: a signature made over hash h verifies over the same h only if signer and verifiers convert h to
the same integer; `tmp[..len]` (left-aligned) in one of them, or `hv[len-32..]` (last instead of first 32 bytes), changes the
integer for every hash length other than 32.  Decides the agreement of the byte placement, not bits2int itself."""
from .mir import Body
from .absint import FnEval
from . import descr
from .report import Finding
from .ctflow import norm_name

HASH_PARAM = {"sign_hash": 2, "verify_hash": 3, "verify_trunc_hash": 4}


def _erase(D, p):
    """descriptor with the parameter index replaced by 'H' and local names by 'B'; None when it mentions another parameter"""
    if isinstance(D, tuple):
        if D and D[0] == "p":
            if D[1] != p:
                raise ValueError
            return ("H",) + tuple(D[2:])
        if D and D[0] == "l":
            return ("B",)
        return tuple(_erase(x, p) for x in D)
    return D


def _unknown(D):
    if isinstance(D, tuple):
        if len(D) == 4 and D[0] == "sub" and D[2] is None:
            return True
        return any(_unknown(x) for x in D)
    return False


def _mentions(D, p):
    if isinstance(D, tuple):
        if D and D[0] == "p" and D[1] == p:
            return True
        return any(_mentions(x, p) for x in D)
    return False


def conv(facts, fn, p, depth=0):
    """-> (set of (dest, src) copies fed by parameter p, decided?)"""
    b = Body(fn)
    d = descr.Describer(facts, b, FnEval(facts, b))
    out = set()
    ok = True
    for bi in b.reach:
        t = b.blocks[bi]["t"]
        if t[0] != "call":
            continue
        name = t[1]["f"]
        if name.endswith("::copy_from_slice") and len(t[2]) == 2:
            src = d.slice_of(t[2][1])
            if src is None or not _mentions(src, p):
                if src is None:
                    # an undescribed source: only a problem when it may come from the hash; be conservative
                    pass
                continue
            dst = d.slice_of(t[2][0])
            if dst is None or _unknown(dst) or _unknown(src):
                ok = False      # a range the describer could not pin down: this sibling is undecided
                continue
            try:
                out.add((_erase(dst, p), _erase(src, p)))
            except ValueError:
                ok = False
        elif t[1].get("l") and depth < 2:
            tgt = facts.fns.get(t[1]["id"])
            if tgt is None or tgt.get("reach"):
                continue
            for i, a in enumerate(t[2]):
                S = d.slice_of(a)
                if S == ("p", p, 0, None):
                    sub, sok = conv(facts, tgt, i + 1, depth + 1)
                    out |= sub
                    ok = ok and sok
    return out, ok


def run_hashconv(facts, run, prop):
    cfg = facts.config
    groups = {}
    for fn in facts.fns.values():
        if fn["item"] in HASH_PARAM and fn.get("reach") and fn["file"].startswith("src/"):
            mod = "::".join(norm_name(fn["name"]).split("::")[:2])
            groups.setdefault(mod, []).append(fn)
    n_groups = 0
    for mod, fns in sorted(groups.items()):
        res = []
        for fn in sorted(fns, key=lambda x: x["name"]):
            p = HASH_PARAM[fn["item"]]
            if p > fn["argc"]:
                continue
            c, ok = conv(facts, fn, p)
            if ok and c:
                res.append((fn, c))
        if len(res) < 2:
            continue
        n_groups += 1
        ref_fn, ref = res[0]
        # majority reference: the set most siblings agree on
        sets = [c for _f, c in res]
        ref = max(sets, key=lambda s: sum(1 for x in sets if x == s))
        ref_fn = [f_ for f_, c in res if c == ref][0]
        for fn, c in res:
            good = c == ref
            run.oblige(ok=good)
            if not good:
                diff = sorted(c ^ ref, key=str)
                run.add(Finding("G15", "%s|hashconv" % norm_name(fn["name"]),
                                "gates G15: %s (%s:%s) places the bytes of its hash argument differently from %s: copies %s (destination "
                                "range in the buffer, source range in the hash) are not common to both -- signer and verifiers would "
                                "convert the same hash to different integers" % (
                                    fn["name"], fn["file"], fn["line"], ref_fn["name"], diff[:2]),
                                config=cfg, site="%s:%s" % (fn["file"], fn["line"]), prop=prop))
        if res:
            run.sample("G15 %s: %d sibling(s) agree on %d copies of the hash bytes" % (mod, len(res), len(ref)))
    run.stats = getattr(run, "stats", {})
    run.stats.update(g15_groups=n_groups)
    return n_groups
