"""R10z: flag-guarded initialisation of the result (C10).

The variable-time combination routines (`set_mul_add_mulgen_vartime` and friends) keep a bool `zz` = "the accumulator
has not been touched yet": the first non-zero digit *assigns* the accumulator and clears the flag, later digits update
it, and after the loop `if zz { *self = NEUTRAL }` covers the all-zero case.  The function's result is right only if,
on every path to the return, the receiver has been assigned as a whole at least once -- otherwise the caller's old
value (the input point P) leaks into the result (u = v = 0 must give the neutral, not P).

Rule: for every function of tables/flaginit.json's pattern that satisfies it on the reviewed tree, explore the product
of the CFG with the exact values of its constant-assigned bool locals (<= 3 flags, so <= 8 copies of each block) and
compute must-"receiver assigned as a whole"; every reachable (return, flags) state must have it.  Whole assignment =
`*self = ..` or a call on the receiver to a function that itself overwrites its receiver on every path."""
import json
import os
import re

from .mir import Body, operand_local, const_int
from .report import Finding
from .ctflow import norm_name

VERIF = os.path.dirname(os.path.dirname(os.path.abspath(__file__)))
PATTERN = r"crrl::\w+::Point::set_\w*vartime"


def load_table():
    p = os.path.join(VERIF, "tables", "flaginit.json")
    if not os.path.exists(p):
        return {"functions": []}
    return json.load(open(p))


class FlagInit:
    def __init__(self, facts):
        self.f = facts
        self.memo = {}

    def flags_of(self, body, fn):
        out = []
        for l in range(fn["argc"] + 1, len(fn["locals"])):
            if self.f.ty(body.local_ty(l)).get("k") != "bool" or not fn["locals"][l][1]:
                continue
            ds = body.defs().get(l, [])
            if ds and all(d[2] == "A" and d[3][2][0] == "use" and const_int(d[3][2][1]) in (0, 1) for d in ds):
                out.append(l)
        return out[:3]

    def receiver_aliases(self, body, fn):
        """locals that are (re)borrows of the receiver as a whole"""
        al = {1}
        ch = True
        while ch:
            ch = False
            for l in range(fn["argc"] + 1, len(fn["locals"])):
                if l in al:
                    continue
                d = body.single_def(l)
                if not d or d[2] != "A":
                    continue
                rv = d[3][2]
                if rv[0] in ("ref", "rawptr") and len(rv[2]) == 2 and rv[2][1] == "*" and rv[2][0] in al:
                    al.add(l)
                    ch = True
                elif rv[0] == "use" and rv[1][0] in ("cp", "mv") and len(rv[1][1]) == 1 and rv[1][1][0] in al:
                    al.add(l)
                    ch = True
        return al

    def overwrites(self, fid, depth=0):
        """does function fid assign its receiver (parameter 1, &mut) as a whole on every returning path?"""
        if fid in self.memo:
            return self.memo[fid]
        self.memo[fid] = False
        fn = self.f.fns.get(fid)
        res = False
        if fn is not None and fn["argc"] >= 1 and depth < 5:
            td = self.f.ty(fn["locals"][1][0])
            if td.get("k") == "ref" and td.get("mut"):
                res = self.analyse(fn, depth)[0]
        self.memo[fid] = res
        return res

    def analyse(self, fn, depth=0):
        body = Body(fn)
        flags = self.flags_of(body, fn)
        al = self.receiver_aliases(body, fn)
        fidx = {l: i for i, l in enumerate(flags)}

        def flag_of_operand(op):
            """(flag index, negated) when the operand is a copy / negation of a flag"""
            l = operand_local(op)
            neg = False
            for _ in range(6):
                if l is None:
                    return None
                if l in fidx:
                    return fidx[l], neg
                d = body.single_def(l)
                if d and d[2] == "A" and d[3][2][0] == "use":
                    l = operand_local(d[3][2][1])
                elif d and d[2] == "A" and d[3][2][0] == "un" and d[3][2][1] == "Not":
                    l = operand_local(d[3][2][2])
                    neg = not neg
                else:
                    return None
            return None

        start = (0, tuple([None] * len(flags)))
        W = {start: False}
        work = [start]
        steps = 0
        bad = None
        while work and steps < 200000:
            steps += 1
            st = work.pop()
            bi, fv = st
            w = W[st]
            fv = list(fv)
            blk = body.blocks[bi]
            for s in blk["s"]:
                if s[0] != "A":
                    continue
                pl = s[1]
                if len(pl) == 1 and pl[0] in fidx:
                    fv[fidx[pl[0]]] = const_int(s[2][1])
                elif len(pl) == 2 and pl[1] == "*" and pl[0] in al:
                    w = True
            t = blk["t"]
            succs = []
            if t[0] == "call":
                if t[1].get("l") and t[2] and t[2][0][0] in ("cp", "mv") and len(t[2][0][1]) == 1 and t[2][0][1][0] in al \
                        and t[1].get("id") in self.f.fns and self.overwrites(t[1]["id"], depth + 1):
                    w = True
                if t[3] and len(t[3]) == 2 and t[3][1] == "*" and t[3][0] in al:
                    w = True
                if t[4] is not None:
                    succs = [(t[4], tuple(fv))]
            elif t[0] == "switch":
                fo = flag_of_operand(t[1])
                for v, b_ in t[2]:
                    if fo is not None:
                        val = int(v) ^ (1 if fo[1] else 0)
                        if fv[fo[0]] is not None and fv[fo[0]] != val:
                            continue
                        nf = list(fv)
                        nf[fo[0]] = val
                        succs.append((b_, tuple(nf)))
                    else:
                        succs.append((b_, tuple(fv)))
                if fo is not None:
                    vals = set(int(v) ^ (1 if fo[1] else 0) for v, _b in t[2])
                    rest = [x for x in (0, 1) if x not in vals]
                    for x in rest:
                        if fv[fo[0]] is None or fv[fo[0]] == x:
                            nf = list(fv)
                            nf[fo[0]] = x
                            succs.append((t[3], tuple(nf)))
                else:
                    succs.append((t[3], tuple(fv)))
            elif t[0] == "ret":
                if not w and bad is None:
                    bad = "a return is reachable with %s and the receiver never assigned as a whole" % (
                        ", ".join("%s=%s" % (fn["locals"][l][1], {None: "?", 0: "false", 1: "true"}[fv[i]]) for l, i in fidx.items()) or "no flags")
            else:
                for s_ in body.succ[bi]:
                    if body.blocks[s_].get("c"):
                        continue
                    succs.append((s_, tuple(fv)))
            for ns in succs:
                if body.blocks[ns[0]].get("c"):
                    continue
                if ns not in W:
                    W[ns] = w
                    work.append(ns)
                elif W[ns] and not w:
                    W[ns] = False
                    work.append(ns)
        return bad is None, bad


def candidates(facts):
    return [fn for fn in facts.fns.values() if re.fullmatch(PATTERN, norm_name(fn["name"]))]


def run_flaginit(facts, run, prop):
    tab = load_table()
    want = [re.compile(x) for x in tab.get("functions", [])]
    fi = FlagInit(facts)
    cfg = facts.config
    n = 0
    for fn in candidates(facts):
        nm = norm_name(fn["name"])
        if not any(w.fullmatch(nm) for w in want):
            continue
        n += 1
        ok, why = fi.analyse(fn)
        run.oblige(ok=ok)
        if ok:
            if n % 4 == 0:
                run.sample("R10z %s: the receiver is assigned as a whole on every path to the return, for every value of its flags (config %s)" % (fn["name"], cfg))
        else:
            run.add(Finding("R10z", nm, "flaginit R10z: %s (%s:%s): %s -- the previous value of the receiver (the input point) would be returned "
                            "as the result (e.g. for all-zero scalars)" % (fn["name"], fn["file"], fn["line"], why),
                            config=cfg, site="%s:%s" % (fn["file"], fn["line"]), prop=prop))
    run.stats = getattr(run, "stats", {})
    run.stats.update(r10z_functions=n)
    return n
