"""E3 maskdom: value-set / interval abstract interpretation of integer locals (K1, K2; C20, C19d).

Per function, every integer local (and tuple field of a local) gets an abstract
value: an explicit set of at most 8 concrete values, an interval, or TOP.  The
values are flow-insensitive per local (join over all definitions) and computed
by fixpoint iteration; callees are evaluated on their abstract arguments with
memoisation (context sensitivity for small helpers such as sgnw/addcarry)."""
import re

from .mir import Body, operand_local, const_int
from .report import Finding
from .ctflow import norm_name

TOP = None
MAXSET = 8


def mkset(vals):
    vals = frozenset(vals)
    if len(vals) <= MAXSET:
        return ("s", vals)
    return ("i", min(vals), max(vals))


def is_subset(v, allowed):
    return v is not TOP and v[0] == "s" and v[1] <= allowed


def join(a, b):
    if a is TOP or b is TOP:
        return TOP
    if a[0] == "s" and b[0] == "s":
        return mkset(a[1] | b[1])
    lo = min(a[1]) if a[0] == "s" else a[1]
    hi = max(a[1]) if a[0] == "s" else a[2]
    lo2 = min(b[1]) if b[0] == "s" else b[1]
    hi2 = max(b[1]) if b[0] == "s" else b[2]
    return ("i", min(lo, lo2), max(hi, hi2))


def bounds(v):
    if v is TOP:
        return None
    if v[0] == "s":
        return (min(v[1]), max(v[1])) if v[1] else None
    return (v[1], v[2])


class Ty:
    __slots__ = ("bits", "signed", "isbool")

    def __init__(self, bits, signed, isbool=False):
        self.bits, self.signed, self.isbool = bits, signed, isbool

    def norm(self, x):
        """Canonical representative: unsigned value in [0, 2^bits)."""
        return x & ((1 << self.bits) - 1)

    def sval(self, x):
        """Signed interpretation if the type is signed."""
        x = self.norm(x)
        if self.signed and x >> (self.bits - 1):
            return x - (1 << self.bits)
        return x

    def full(self):
        return ("i", 0, (1 << self.bits) - 1)


def ty_of(facts, tid):
    td = facts.ty(tid)
    k = td.get("k")
    if k == "uint":
        return Ty(td["bits"], False)
    if k == "int":
        return Ty(td["bits"], True)
    if k == "bool":
        return Ty(1, False, True)
    if k == "char":
        return Ty(32, False)
    return None


# all abstract values are over the *unsigned canonical* representation of the type

def concrete_bin(op, a, b, ta, tr):
    """a, b canonical ints of type ta (b may be a shift amount of another type); result canonical in tr."""
    m = (1 << tr.bits) - 1
    if op in ("Add", "AddUnchecked"):
        return (a + b) & m
    if op in ("Sub", "SubUnchecked"):
        return (a - b) & m
    if op in ("Mul", "MulUnchecked"):
        return (a * b) & m
    if op == "BitAnd":
        return a & b
    if op == "BitOr":
        return a | b
    if op == "BitXor":
        return a ^ b
    if op in ("Shl", "ShlUnchecked"):
        return (a << (b % ta.bits)) & m
    if op in ("Shr", "ShrUnchecked"):
        s = b % ta.bits
        if ta.signed:
            return (ta.sval(a) >> s) & m
        return a >> s
    sa, sb = ta.sval(a), ta.sval(b)
    if op == "Eq":
        return int(a == b)
    if op == "Ne":
        return int(a != b)
    if op == "Lt":
        return int(sa < sb)
    if op == "Le":
        return int(sa <= sb)
    if op == "Gt":
        return int(sa > sb)
    if op == "Ge":
        return int(sa >= sb)
    if op in ("Div",) and b != 0 and not ta.signed:
        return a // b
    if op in ("Rem",) and b != 0 and not ta.signed:
        return a % b
    return None


def abs_bin(op, va, vb, ta, tb, tr):
    # both explicit sets: concrete
    if va is not TOP and vb is not TOP and va[0] == "s" and vb[0] == "s" and len(va[1]) * len(vb[1]) <= 64:
        out = set()
        for a in va[1]:
            for b in vb[1]:
                r = concrete_bin(op, a, b, ta, tr)
                if r is None:
                    return TOP
                out.add(r)
        return mkset(out)
    if op in ("Eq", "Ne", "Lt", "Le", "Gt", "Ge"):
        return ("s", frozenset([0, 1]))
    ba, bb = bounds(va), bounds(vb)
    if op in ("Shr", "ShrUnchecked") and bb is not None and bb[0] == bb[1]:
        s = bb[0] % ta.bits
        if s == ta.bits - 1:
            if ta.signed:
                return ("s", frozenset([0, (1 << tr.bits) - 1]))
            return ("s", frozenset([0, 1]))
        if not ta.signed:
            hi = (ba[1] if ba else (1 << ta.bits) - 1) >> s
            lo = (ba[0] >> s) if ba else 0
            return ("s", frozenset(range(lo, hi + 1))) if hi - lo < MAXSET else ("i", lo, hi)
        if ba is not None and ba[1] < (1 << (ta.bits - 1)):
            return ("i", ba[0] >> s, ba[1] >> s)
        return TOP
    if op == "BitAnd":
        # result <= min of the non-negative upper bounds; x & {0,1} = {0,1}
        for x in (vb, va):
            if x is not TOP and x[0] == "s" and x[1] <= frozenset([0, 1]):
                return ("s", frozenset([0, 1]) if 1 in x[1] else frozenset([0]))
        cand = [b_[1] for b_ in (ba, bb) if b_ is not None]
        if cand:
            hi = min(cand)
            return ("s", frozenset(range(0, hi + 1))) if hi < MAXSET else ("i", 0, hi)
        return TOP
    if ba is None or bb is None:
        return TOP
    m = (1 << tr.bits) - 1
    if op in ("Add", "AddUnchecked") and ba[1] + bb[1] <= m:
        return ("i", ba[0] + bb[0], ba[1] + bb[1])
    if op in ("Sub", "SubUnchecked") and ba[0] - bb[1] >= 0:
        return ("i", ba[0] - bb[1], ba[1] - bb[0])
    if op in ("Sub", "SubUnchecked") and tr.signed:
        # signed subtraction of small magnitudes (e.g. i32 in [0,255] minus 1)
        sa = (ta.sval(ba[0]), ta.sval(ba[1])) if ba[1] < (1 << (ta.bits - 1)) else None
        sb = (tb.sval(bb[0]), tb.sval(bb[1])) if bb[1] < (1 << (tb.bits - 1)) else None
        if sa and sb:
            lo, hi = sa[0] - sb[1], sa[1] - sb[0]
            if hi - lo < 4096 and lo >= -(1 << (tr.bits - 1)) and hi < (1 << (tr.bits - 1)):
                vals = set(x & m for x in range(lo, hi + 1)) if hi - lo < MAXSET else None
                if vals is not None:
                    return mkset(vals)
                return ("sr", lo, hi)  # signed range marker
        return TOP
    if op in ("Mul", "MulUnchecked") and ba[1] * bb[1] <= m:
        return ("i", ba[0] * bb[0], ba[1] * bb[1])
    if op in ("Shl", "ShlUnchecked") and bb[0] == bb[1] and (ba[1] << bb[0]) <= m:
        return ("i", ba[0] << bb[0], ba[1] << bb[0])
    if op == "BitOr" or op == "BitXor":
        hi = max(ba[1], bb[1])
        return ("i", 0, (1 << hi.bit_length()) - 1)
    return TOP


def fix_sr(v, t):
    """('sr', lo, hi): signed range that may straddle zero; convert shifts etc. handled in callers."""
    return v


def abs_cast(v, ts, td):
    """IntToInt cast from type ts to td over canonical unsigned representations."""
    md = (1 << td.bits) - 1
    if v is TOP:
        if ts.bits < td.bits and not ts.signed:
            return ("i", 0, (1 << ts.bits) - 1)
        if ts.bits < td.bits and ts.signed and td.signed:
            return ("sr", -(1 << (ts.bits - 1)), (1 << (ts.bits - 1)) - 1)
        if ts.isbool:
            return ("s", frozenset([0, 1]))
        return TOP
    if v[0] == "sr":
        lo, hi = v[1], v[2]
        if hi - lo < MAXSET:
            return mkset(set(x & md for x in range(lo, hi + 1)))
        if lo >= 0:
            return ("i", lo, hi) if hi <= md else TOP
        return ("sr", lo, hi) if td.signed and td.bits >= ts.bits else TOP
    if v[0] == "s":
        out = set()
        for x in v[1]:
            sx = ts.sval(x)
            out.add(sx & md)
        return mkset(out)
    lo, hi = v[1], v[2]
    if ts.signed and hi >= (1 << (ts.bits - 1)):
        return TOP
    if hi <= md:
        return ("i", lo, hi)
    return TOP


def abs_un(op, v, t):
    m = (1 << t.bits) - 1
    if v is TOP or v[0] != "s":
        return TOP
    if op == "Not":
        if t.isbool:
            return mkset(set(1 - x for x in v[1]))
        return mkset(set((~x) & m for x in v[1]))
    if op == "Neg":
        return mkset(set((-x) & m for x in v[1]))
    return TOP


STD_BIN = {"wrapping_add": "Add", "wrapping_sub": "Sub", "wrapping_mul": "Mul"}


class MaskEngine:
    def __init__(self, facts):
        self.f = facts
        self.memo = {}
        self.busy = set()
        self.bodies = {}
        self.ctx_count = {}
        self.control = None

    def body(self, fn):
        b = self.bodies.get(fn["id"])
        if b is None:
            b = Body(fn)
            self.bodies[fn["id"]] = b
        return b

    # ---- control parameters ----
    def control_params(self):
        """fn id -> set of parameter locals that are control words (named ctl, or forwarded to one)."""
        if self.control is not None:
            return self.control
        ctl = {}
        for fn in self.f.fns.values():
            s = set()
            for i in range(1, fn["argc"] + 1):
                if fn["locals"][i][1] == "ctl":
                    t = ty_of(self.f, fn["locals"][i][0])
                    if t is not None and t.bits == 32 and not t.signed:
                        s.add(i)
            if not s and fn["item"] in ("set_cond", "select", "cswap", "set_condneg", "set_condzeta"):
                # the conditional-copy family: the unique by-value u32 parameter is the control word whatever its name
                cand = []
                for i in range(1, fn["argc"] + 1):
                    t = ty_of(self.f, fn["locals"][i][0])
                    if t is not None and t.bits == 32 and not t.signed and self.f.ty(fn["locals"][i][0]).get("k") == "uint":
                        cand.append(i)
                if len(cand) == 1:
                    s.add(cand[0])
            ctl[fn["id"]] = s
        changed = True
        rounds = 0
        while changed and rounds < 10:
            changed = False
            rounds += 1
            for fn in self.f.fns.values():
                body = self.body(fn)
                for bi in body.reach:
                    t = body.blocks[bi]["t"]
                    if t[0] != "call" or not t[1]["l"]:
                        continue
                    cs = ctl.get(t[1]["id"])
                    if not cs:
                        continue
                    for p in cs:
                        if p - 1 >= len(t[2]):
                            continue
                        l = operand_local(t[2][p - 1])
                        seen = 0
                        while l is not None and seen < 8:
                            if l != 0 and l <= fn["argc"]:
                                tt = ty_of(self.f, fn["locals"][l][0])
                                if tt is not None and tt.bits == 32 and not tt.signed and l not in ctl[fn["id"]]:
                                    ctl[fn["id"]].add(l)
                                    changed = True
                                break
                            d = body.single_def(l)
                            if d and d[2] == "A" and d[3][2][0] == "use":
                                l = operand_local(d[3][2][1])
                                seen += 1
                            elif d and d[2] == "A" and d[3][2][0] == "un" and d[3][2][1] == "Not":
                                # !ctl is a control word iff ctl is
                                l = operand_local(d[3][2][2])
                                seen += 1
                            else:
                                break
        self.control = ctl
        return ctl

    # ---- evaluation ----
    def eval_fn(self, fn, argvals=None):
        """Returns {'ret': value or {field: value}, 'vals': map} for the function under the given
        abstract arguments (tuple aligned with params; None entries = default)."""
        ctlp = self.control_params().get(fn["id"], set())
        key_args = []
        for i in range(1, fn["argc"] + 1):
            v = argvals[i - 1] if argvals and i - 1 < len(argvals) else "default"
            key_args.append(v)
        key = (fn["id"], tuple(key_args))
        if key in self.memo:
            return self.memo[key]
        n = self.ctx_count.get(fn["id"], 0)
        cap = 400 if len(fn["blocks"]) <= 6 else 24
        if n >= cap and argvals is not None:
            return self.eval_fn(fn, None)
        self.ctx_count[fn["id"]] = n + 1
        if key in self.busy:
            return {"ret": TOP, "vals": {}}
        self.busy.add(key)
        try:
            res = FnMask(self, fn, key_args, ctlp).run()
        finally:
            self.busy.discard(key)
        self.memo[key] = res
        return res


MASK32 = frozenset([0, 0xFFFFFFFF])


class FnMask:
    def __init__(self, eng, fn, argvals, ctlp):
        self.eng = eng
        self.f = eng.f
        self.fn = fn
        self.body = eng.body(fn)
        self.vals = {}       # local or (local, field) -> abstract value
        self.argvals = argvals
        self.ctlp = ctlp
        self.escaped = set()
        self.vec = {}
        self.tys = {}

    def lty(self, l):
        t = self.tys.get(l)
        if t is None:
            t = ty_of(self.f, self.fn["locals"][l][0]) or False
            self.tys[l] = t
        return t or None

    def field_ty(self, l, fidx):
        td = self.f.ty(self.fn["locals"][l][0])
        if td.get("k") == "tuple" and fidx < len(td["elems"]):
            return ty_of(self.f, td["elems"][fidx])
        return None

    def get(self, key):
        return self.vals.get(key, "bot")

    def operand(self, op):
        """-> (value, Ty)"""
        if op[0] == "k":
            t = ty_of(self.f, op[2])
            if op[1] is None or t is None:
                return TOP, t
            return ("s", frozenset([t.norm(int(op[1]))])), t
        if op[0] in ("cp", "mv"):
            pl = op[1]
            l = pl[0]
            if len(pl) == 1:
                t = self.lty(l)
                if t is None:
                    return TOP, None
                if l in self.escaped:
                    return TOP, t
                v = self.get(l)
                return (TOP if v == "bot" else v), t
            if len(pl) == 2 and isinstance(pl[1], list) and pl[1][0] == "f":
                t = self.field_ty(l, pl[1][1])
                if t is None:
                    return TOP, None
                if l in self.escaped:
                    return TOP, t
                v = self.get((l, pl[1][1]))
                return (TOP if v == "bot" else v), t
            return TOP, None
        return TOP, None

    def setv(self, key, v):
        old = self.vals.get(key, "bot")
        if old == "bot" or old == v:
            new = v
        else:
            new = join(old, v) if not (old is not TOP and old[0] == "sr") and not (v is not TOP and v[0] == "sr") else TOP
        if new != old:
            self.vals[key] = new
            return True
        return False

    def run(self):
        fn = self.fn
        body = self.body
        # parameters
        for i in range(1, fn["argc"] + 1):
            t = self.lty(i)
            av = self.argvals[i - 1]
            if isinstance(av, tuple) and av and av[0] == "vec":
                if t is None:
                    self.vec[i] = av[1]
                    continue
                av = "default"
            if t is None:
                continue
            if av == "default":
                if i in self.ctlp:
                    self.vals[i] = ("s", MASK32)
                else:
                    self.vals[i] = TOP
            else:
                self.vals[i] = av
        # escaped locals: address taken mutably (or any borrow of an integer local that is later written through)
        for bi in body.reach:
            for s in body.blocks[bi]["s"]:
                if s[0] == "A" and s[2][0] in ("ref", "rawptr") and (s[2][1] is True or s[2][0] == "rawptr"):
                    pl = s[2][2]
                    if "*" not in pl[1:]:
                        self.escaped.add(pl[0])
        changed = True
        rounds = 0
        while changed and rounds < 12:
            changed = False
            rounds += 1
            for bi in body.reach:
                b = body.blocks[bi]
                for s in b["s"]:
                    if s[0] != "A":
                        continue
                    if self.assign(s[1], s[2]):
                        changed = True
                t = b["t"]
                if t[0] == "call":
                    if self.call(t):
                        changed = True
        if rounds >= 12:
            # widen everything that is still moving
            for k in list(self.vals):
                pass
        # return value
        rt = self.f.ty(fn["locals"][0][0])
        if rt.get("k") == "tuple":
            ret = {}
            for i in range(len(rt["elems"])):
                v = self.get((0, i))
                ret[i] = TOP if v == "bot" else v
        else:
            v = self.get(0)
            ret = TOP if v == "bot" else v
        # a helper returning a lane-mask vector: only when the return place has one definition and it is a known mask
        retvec = self.vec.get(0) if body.single_def(0) is not None else None
        return {"ret": ret, "vals": self.vals, "retvec": retvec}

    def assign(self, place, rv):
        l = place[0]
        if len(place) == 1:
            key = l
            t = self.lty(l)
        elif len(place) == 2 and isinstance(place[1], list) and place[1][0] == "f":
            key = (l, place[1][1])
            t = self.field_ty(l, place[1][1])
        else:
            return False
        k = rv[0]
        if k == "agg" and len(place) == 1:
            ch = False
            if rv[1].get("k") == "tuple":
                for i, o in enumerate(rv[2]):
                    ft = self.field_ty(l, i)
                    if ft is None:
                        continue
                    v, _t = self.operand(o)
                    if self.setv((l, i), v):
                        ch = True
            return ch
        if k in ("use", "cast") and len(place) == 1 and t is None:
            o = rv[1] if k == "use" else rv[2]
            if o[0] in ("cp", "mv") and len(o[1]) == 1 and o[1][0] in self.vec:
                old = self.vec.get(l)
                val = self.vec[o[1][0]]
                if old != val:
                    self.vec[l] = val if old is None else min(old, val)
                    return True
                return False
        if k == "use" and len(place) == 1 and t is None:
            # tuple copy
            o = rv[1]
            if o[0] in ("cp", "mv") and len(o[1]) == 1:
                td = self.f.ty(self.fn["locals"][l][0])
                if td.get("k") == "tuple":
                    ch = False
                    for i in range(len(td["elems"])):
                        v = self.get((o[1][0], i))
                        if v != "bot" and self.setv((l, i), v):
                            ch = True
                    return ch
            return False
        if t is None:
            return False
        v = TOP
        if k == "use":
            v, _ = self.operand(rv[1])
        elif k == "cast":
            sv, st = self.operand(rv[2])
            if st is not None and rv[1] in ("IntToInt",):
                v = abs_cast(sv, st, t)
            else:
                v = TOP
        elif k == "bin":
            va, ta = self.operand(rv[2])
            vb, tb = self.operand(rv[3])
            if ta is not None and tb is not None:
                if va is not TOP and va[0] == "sr":
                    # arithmetic shift of a signed range by >= its magnitude bits gives {0,-1}
                    bb = bounds(vb)
                    if rv[1] in ("Shr", "ShrUnchecked") and bb and bb[0] == bb[1] and ta.signed:
                        lo, hi = va[1] >> bb[0], va[2] >> bb[0]
                        m = (1 << t.bits) - 1
                        v = mkset(set(x & m for x in range(lo, hi + 1))) if hi - lo < MAXSET else TOP
                    else:
                        v = TOP
                elif vb is not TOP and vb[0] == "sr":
                    v = TOP
                else:
                    v = abs_bin(rv[1], va, vb, ta, tb, t)
        elif k == "un":
            va, ta = self.operand(rv[2])
            if ta is not None and (va is TOP or va[0] != "sr"):
                v = abs_un(rv[1], va, t)
        elif k == "discr":
            v = TOP
        if v is not TOP and v[0] == "i" and v[2] - v[1] < MAXSET:
            v = ("s", frozenset(range(v[1], v[2] + 1)))
        return self.setv(key, v)

    def call(self, t):
        callee = t[1]
        dest = t[3]
        if len(dest) != 1:
            return False
        dl = dest[0]
        name = callee["f"]
        args = t[2]
        dt = self.lty(dl)
        dtd = self.f.ty(self.fn["locals"][dl][0])
        ch = False
        if callee["l"]:
            tgt = self.f.fns.get(callee["id"])
            if tgt is None:
                return self._set_ret_top(dl, dt, dtd)
            # abstract args for integer params
            av = []
            anyinfo = False
            for i, a in enumerate(args):
                v, ty = self.operand(a)
                if ty is None:
                    w = self.vec_of(a)
                    if w is not None:
                        # a lane-mask vector handed to a (private) helper keeps its lane width
                        av.append(("vec", w))
                        anyinfo = True
                    else:
                        av.append("default")
                else:
                    if v is not TOP and v[0] == "sr":
                        v = TOP
                    av.append(v)
                    if v is not TOP:
                        anyinfo = True
            res = self.eng.eval_fn(tgt, tuple(av) if anyinfo else None)
            r = res["ret"]
            if isinstance(r, dict):
                for i, v in r.items():
                    if self.field_ty(dl, i) is not None and self.setv((dl, i), v):
                        ch = True
                return ch
            if dt is not None:
                return self.setv(dl, r)
            rv = res.get("retvec")
            if rv is not None:
                old = self.vec.get(dl)
                if old != rv:
                    self.vec[dl] = rv if old is None else min(old, rv)
                    return True
            return False
        # std / intrinsics
        short = name.split("::")[-1]
        lm = self.simd(short, args, callee)
        if lm is not None:
            kind, val = lm
            if kind == "vec":
                old = self.vec.get(dl)
                if old != val:
                    self.vec[dl] = val if old is None else min(old, val)
                    return True
                return False
            if dt is not None:
                return self.setv(dl, val)
        if dt is not None:
            if short in STD_BIN and len(args) == 2:
                va, ta = self.operand(args[0])
                vb, tb = self.operand(args[1])
                if ta is not None and tb is not None:
                    v = abs_bin(STD_BIN[short], va, vb, ta, tb, dt)
                    if v is TOP and STD_BIN[short] == "Sub":
                        # wrapping_sub on small explicit sets handled by concrete; intervals that may wrap: TOP
                        pass
                    return self.setv(dl, v)
            if short == "wrapping_neg" and len(args) == 1:
                va, ta = self.operand(args[0])
                if ta is not None:
                    return self.setv(dl, abs_un("Neg", va, dt))
            if short in ("leading_zeros", "trailing_zeros", "count_ones"):
                va, ta = self.operand(args[0])
                bits = ta.bits if ta else 64
                return self.setv(dl, ("i", 0, bits))
            if "addcarry" in short or "subborrow" in short:
                return self.setv(dl, ("s", frozenset([0, 1])))
            return self.setv(dl, TOP)
        return self._set_ret_top(dl, dt, dtd)

    # ---- SIMD lane masks: a vector whose lanes of `w` bits are each all-zero or all-one ----
    VEC_PRODUCERS = {"_mm_cmpeq_epi64": 64, "_mm_cmpeq_epi32": 32, "_mm_cmpeq_epi16": 16, "_mm_cmpeq_epi8": 8,
                     "_mm256_cmpeq_epi64": 64, "_mm256_cmpeq_epi32": 32, "_mm256_cmpeq_epi8": 8,
                     "vceqzq_u64": 64, "vceqq_u64": 64, "vceqzq_u32": 32, "vceqq_u32": 32,
                     "_mm_setzero_si128": 128, "_mm256_setzero_si256": 256}
    VEC_COMBINE = ("_mm_and_si128", "_mm_or_si128", "_mm_xor_si128", "_mm_andnot_si128", "_mm256_and_si256",
                   "_mm256_or_si256", "_mm256_xor_si256", "_mm256_andnot_si256", "vandq_u64", "vorrq_u64", "veorq_u64",
                   "vandq_u32", "vorrq_u32", "veorq_u32")

    def vec_of(self, op):
        if op[0] in ("cp", "mv") and len(op[1]) == 1:
            return self.vec.get(op[1][0])
        return None

    def simd(self, short, args, callee):
        base = short.split("<")[0]
        g = callee.get("g") or []
        if base in self.VEC_PRODUCERS:
            return ("vec", self.VEC_PRODUCERS[base])
        if base in self.VEC_COMBINE and len(args) == 2:
            a, b = self.vec_of(args[0]), self.vec_of(args[1])
            if a is not None and b is not None:
                return ("vec", min(a, b))
            return None
        if base in ("_mm_bsrli_si128", "_mm_bslli_si128", "_mm_srli_si128", "_mm_slli_si128"):
            a = self.vec_of(args[0])
            n = None
            for x in g:
                try:
                    n = int(str(x).split("_")[0])
                except ValueError:
                    pass
            if n is None and len(args) > 1:
                c = const_int(args[1])
                n = c
            if a is not None and n is not None and (n * 8) % a == 0:
                return ("vec", a)
            return None
        if base in ("vextq_u64", "vextq_u32"):
            a, b = self.vec_of(args[0]), self.vec_of(args[1])
            if a is not None and b is not None:
                return ("vec", min(a, b))
            return None
        if base.startswith("vreinterpretq_"):
            a = self.vec_of(args[0])
            if a is not None:
                return ("vec", a)
            return None
        if base in ("_mm_cvtsi128_si32", "vgetq_lane_u32"):
            a = self.vec_of(args[0])
            if a is not None and a >= 32:
                return ("int", ("s", MASK32))
            return None
        if base in ("_mm_cvtsi128_si64", "vgetq_lane_u64"):
            a = self.vec_of(args[0])
            if a is not None and a >= 64:
                return ("int", ("s", frozenset([0, (1 << 64) - 1])))
            return None
        return None

    def _set_ret_top(self, dl, dt, dtd):
        ch = False
        if dt is not None:
            return self.setv(dl, TOP)
        if dtd.get("k") == "tuple":
            for i in range(len(dtd["elems"])):
                if self.field_ty(dl, i) is not None and self.setv((dl, i), TOP):
                    ch = True
        return ch


# ---------------------------------------------------------------------------

NON_STATUS = re.compile(r".*::(lzcnt|borrow|add_rsh224|bitlength|bitlen|get_bit|trace|legendre|checksum|coef|"
                        r"lindiv31abs|lin|montylin|T255_MINUS_Q|sgnw|from_u32|w64le|w64be|mul_small|get_unique_bit\w*)")


def status_fns(facts):
    """Externally reachable functions returning u32 or a tuple ending in u32, minus the reviewed non-status list."""
    out = []
    for fn in facts.fns.values():
        if fn["kind"] == "Closure" or not fn.get("reach"):
            continue
        rt = facts.ty(fn["locals"][0][0])
        fld = None
        if rt.get("k") == "uint" and rt.get("bits") == 32 and not rt.get("usize"):
            fld = -1
        elif rt.get("k") == "tuple" and rt["elems"]:
            lt = facts.ty(rt["elems"][-1])
            if lt.get("k") == "uint" and lt.get("bits") == 32 and not lt.get("usize"):
                fld = len(rt["elems"]) - 1
        if fld is None:
            continue
        out.append((fn, fld))
    return out


_cl_memo = {}


def uses_closures(facts, fn, depth=0):
    """does the function (or, within four calls, a local callee) build a closure or is it one?  Values that flow through
    iterator / Option combinators taking closures (`fold`, `for_each`, `map`, ..) are not modelled by the value-set
    evaluation: TOP there means *undecided*, not wrong."""
    key = (id(facts), fn["id"])
    if key in _cl_memo:
        return _cl_memo[key]
    _cl_memo[key] = False
    res = fn["kind"] == "Closure"
    if not res:
        for b in fn["blocks"]:
            for st in b["s"]:
                if st[0] == "A" and st[2][0] == "agg" and st[2][1].get("k") == "closure":
                    res = True
            t = b["t"]
            if not res and depth < 4 and t[0] == "call" and t[1].get("l") and t[1].get("id") in facts.fns:
                if uses_closures(facts, facts.fns[t[1]["id"]], depth + 1):
                    res = True
            if res:
                break
    _cl_memo[key] = res
    return res


def run_maskdom(facts, run, prop, want=("K1", "K2")):
    eng = MaskEngine(facts)
    cfg = facts.config
    undecided = []
    import json, os
    tab = json.load(open(os.path.join(os.path.dirname(os.path.dirname(os.path.abspath(__file__))), "tables", "masks.json")))
    non_status = [re.compile(x["fn"]) for x in tab["non_status"]]
    k1_ok = [(re.compile(x["fn"]), re.compile(x["callee"])) for x in tab.get("k1_reviewed", [])]
    producer_ok = [re.compile(x["fn"]) for x in tab.get("mask_by_invariant", [])]
    nk2 = nk2ok = 0
    nk1 = nk1ok = 0
    if "K2" in want:
        for fn, fld in status_fns(facts):
            nn = norm_name(fn["name"])
            if any(p.fullmatch(nn) for p in non_status):
                continue
            nk2 += 1
            res = eng.eval_fn(fn, None)
            r = res["ret"]
            v = r if fld == -1 else (r.get(fld, TOP) if isinstance(r, dict) else TOP)
            ok = is_subset(v, MASK32) or any(p.fullmatch(nn) for p in producer_ok)
            if not ok and v is TOP and uses_closures(facts, fn):
                undecided.append("K2 %s" % nn)
                run.oblige(ok=False)
                continue
            run.oblige(ok=ok)
            if ok:
                nk2ok += 1
                if nk2 % 23 == 0:
                    run.sample("K2 %s returns a status in %s (config %s)" % (fn["name"], sorted(v[1]) if v is not TOP and v[0] == "s" else "reviewed", cfg))
            else:
                desc = "TOP (cannot establish)" if v is TOP else (sorted(hex(x) for x in v[1]) if v[0] == "s" else "[%s,%s]" % (v[1], v[2]))
                run.add(Finding("K2", nn, "maskdom K2: status word returned by %s (%s:%s) is not provably in {0, 0xFFFFFFFF}: value set %s" % (
                    fn["name"], fn["file"], fn["line"], desc), config=cfg, site="%s:%s" % (fn["file"], fn["line"]), prop=prop))
    if "K1" in want:
        ctl = eng.control_params()
        for fn in facts.fns.values():
            body = eng.body(fn)
            res = None
            for bi in body.reach:
                t = body.blocks[bi]["t"]
                if t[0] != "call" or not t[1]["l"]:
                    continue
                cs = ctl.get(t[1]["id"])
                if not cs:
                    continue
                if res is None:
                    res = eng.eval_fn(fn, None)
                    fm = FnMask(eng, fn, ["default"] * fn["argc"], ctl.get(fn["id"], set()))
                    fm.vals = res["vals"]
                for p in sorted(cs):
                    if p - 1 >= len(t[2]):
                        continue
                    nk1 += 1
                    v, ty = fm.operand(t[2][p - 1])
                    l = operand_local(t[2][p - 1])
                    if l is not None and l in _escaped(body):
                        v = TOP
                    nn = norm_name(fn["name"])
                    cn = norm_name(t[1]["f"])
                    ok = is_subset(v, MASK32) or any(a.fullmatch(nn) and b.fullmatch(cn) for a, b in k1_ok)
                    if not ok and v is TOP and uses_closures(facts, fn):
                        undecided.append("K1 %s -> %s" % (nn, cn))
                        run.oblige(ok=False)
                        continue
                    run.oblige(ok=ok)
                    if ok:
                        nk1ok += 1
                    else:
                        desc = "TOP (cannot establish)" if v is TOP else (sorted(hex(x) for x in v[1]) if v[0] == "s" else str(v))
                        run.add(Finding("K1", "%s|%s" % (nn, cn),
                                        "maskdom K1: in %s (%s:%s) the control word passed to %s is not provably in {0, 0xFFFFFFFF}: value set %s" % (
                                            fn["name"], fn["file"], t[5], t[1]["f"], desc),
                                        config=cfg, site="%s:%s" % (fn["file"], t[5]), prop=prop))
    run.stats = getattr(run, "stats", {})
    run.stats.update(k1_sites=nk1, k1_ok=nk1ok, k2_fns=nk2, k2_ok=nk2ok, contexts=len(eng.memo), undecided_closure_idioms=undecided[:30])
    return eng


_esc_cache = {}


def _escaped(body):
    k = id(body)
    if k not in _esc_cache:
        s = set()
        for bi in body.reach:
            for st in body.blocks[bi]["s"]:
                if st[0] == "A" and st[2][0] in ("ref", "rawptr") and (st[2][1] is True or st[2][0] == "rawptr"):
                    pl = st[2][2]
                    if "*" not in pl[1:]:
                        s.add(pl[0])
        _esc_cache[k] = s
    return _esc_cache[k]
