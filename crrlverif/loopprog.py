"""R19c: every loop terminates for a structural reason or is a reviewed instance.

A natural loop in MIR is
  (I) iterator-driven: its exit is the `None` arm of `Iterator::next` on a Range / slice / chunks iterator created outside
      the loop (bounded by construction), or
  (C) a counter loop: some switch in the loop leaves it on a comparison `c < B` / `c <= B` / `c != B` (resp. `>`, `>=`)
      between a local c and a loop-invariant B, and every definition of c inside the loop is `c = c + k` (resp. `c - k`)
      with k >= 1 by interval analysis, and every cycle of the loop passes through such a definition, or
  (R) listed in tables/loops.json with the reason (numeric termination arguments such as lattice reduction, rejection
      sampling): these are NOT decided.
Anything else is reported: a new `loop {}` / `while` in scope, or a counter loop whose increment was removed or may be 0."""
import json
import os
import re

from .mir import Body, operand_local, const_int
from .absint import FnEval, INF
from .report import Finding
from .ctflow import norm_name

VERIF = os.path.dirname(os.path.dirname(os.path.abspath(__file__)))


def load_table():
    p = os.path.join(VERIF, "tables", "loops.json")
    if not os.path.exists(p):
        return {"reviewed": []}
    return json.load(open(p))


def _copy_root(body, l, depth=0):
    for _ in range(8):
        d = body.single_def(l)
        if d and d[2] == "A" and d[3][2][0] == "use" and d[3][2][1][0] in ("cp", "mv") and len(d[3][2][1][1]) == 1:
            l = d[3][2][1][1][0]
        else:
            break
    return l


def classify(facts, fn, body, header, blocks, ev):
    """-> ('iter'|'counter'|'unknown', detail)"""
    # (I) iterator-driven: the `None` arm of a `next()` call made in this loop leaves *this* loop (a nested `for` inside a
    # `while` does not make the `while` iterator-bounded), and the iterator was created outside the loop
    for bi in blocks:
        t = body.blocks[bi]["t"]
        if t[0] == "call" and "Iterator" in t[1]["f"] and t[1]["f"].endswith("::next") and t[3] and len(t[3]) == 1:
            res = t[3][0]
            # the switch on the discriminant of the result
            for sb in blocks:
                st = body.blocks[sb]["t"]
                if st[0] != "switch":
                    continue
                dl = operand_local(st[1])
                dd = body.single_def(dl) if dl is not None else None
                if not (dd and dd[2] == "A" and dd[3][2][0] == "discr" and dd[3][2][1][0] == res):
                    continue
                targets = [b_ for _v, b_ in st[2]] + [st[3]]
                if any(x not in blocks for x in targets):
                    # iterator object: first argument of next() is `&mut it`; `it` must not be (re)assigned in the loop
                    it = operand_local(t[2][0]) if t[2] else None
                    root = it
                    for _ in range(6):
                        di = body.single_def(root) if root is not None else None
                        if di and di[2] == "A" and di[3][2][0] in ("ref", "rawptr"):
                            root = di[3][2][2][0]      # (re)borrow: follow to the borrowed local
                        elif di and di[2] == "A" and di[3][2][0] == "use" and di[3][2][1][0] in ("cp", "mv") and di[0] in blocks:
                            root = di[3][2][1][1][0]
                        else:
                            break
                    if root is None or not any(d_[0] in blocks for d_ in body.defs().get(root, [])):
                        return "iter", t[1]["f"]
    # exits: switches with a target outside the loop
    defs = body.defs()
    inloop_defs = {}
    for l, dl in defs.items():
        ds = [d for d in dl if d[0] in blocks]
        if ds:
            inloop_defs[l] = ds
    for bi in sorted(blocks):
        t = body.blocks[bi]["t"]
        if t[0] != "switch":
            continue
        targets = [b for _v, b in t[2]] + [t[3]]
        if all(x in blocks for x in targets):
            continue
        cl = operand_local(t[1])
        if cl is None:
            continue
        cl = _copy_root(body, cl)
        d = body.single_def(cl)
        if not d or d[2] != "A" or d[3][2][0] != "bin" or d[3][2][1] not in ("Lt", "Le", "Gt", "Ge", "Ne"):
            continue
        op, x, y = d[3][2][1], d[3][2][2], d[3][2][3]
        for (c_op, b_op, o) in ((x, y, op), (y, x, {"Lt": "Gt", "Le": "Ge", "Gt": "Lt", "Ge": "Le", "Ne": "Ne"}[op])):
            c = operand_local(c_op)
            if c is None:
                continue
            c = _copy_root(body, c)
            if c not in inloop_defs:
                continue
            bl = operand_local(b_op)
            if bl is not None and _copy_root(body, bl) in inloop_defs:
                # the bound changes inside the loop: accept only if it is recomputed from invariant data (len())
                bd = body.single_def(_copy_root(body, bl))
                if not (bd and (bd[2] == "call" and bd[3][1]["f"].endswith("::len") or bd[2] == "A" and bd[3][2][0] == "un")):
                    continue
            up = o in ("Lt", "Le", "Ne")
            ok = True
            broot = _copy_root(body, bl) if bl is not None else None
            for dd in inloop_defs[c]:
                if not _is_step(body, ev, c, dd, up, broot, bi, o):
                    ok = False
                    break
            if ok and _every_cycle_steps(body, header, blocks, [dd[0] for dd in inloop_defs[c]]):
                return "counter", "%s %s bound, stepped in every cycle" % (fn["locals"][c][1] or "_%d" % c, o)
    return "unknown", None


def _positive(body, ev, k, at, c, broot, guard_bi, o, depth=0):
    """k >= 1 at block `at`: by intervals, or because every definition of k is a constant >= 1 or `B - c` under the
    loop guard `c < B` (the remaining distance), e.g. `let blen = if n - i > 200 { 200 } else { n - i }`."""
    iv = ev.at_block(at).op_ival(k, at)
    if iv is not None and iv[0] >= 1:
        return True
    l = operand_local(k)
    if l is None or depth > 4 or broot is None or o != "Lt":
        return False
    defs = body.defs().get(l, [])
    if not defs:
        return False
    for d in defs:
        if d[2] != "A":
            return False
        rv = d[3][2]
        if rv[0] == "use":
            cv = const_int(rv[1])
            if cv is not None:
                if cv < 1:
                    return False
                continue
            if not _positive(body, ev, rv[1], d[0], c, broot, guard_bi, o, depth + 1):
                return False
            continue
        if rv[0] == "bin" and rv[1] in ("Sub", "SubUnchecked"):
            x, y = operand_local(rv[2]), operand_local(rv[3])
            if x is not None and y is not None and _copy_root(body, x) == broot and _copy_root(body, y) == c \
                    and body.dominates(guard_bi, d[0]) and d[0] != guard_bi:
                continue
        return False
    return True


def _is_step(body, ev, c, d, up, broot=None, guard_bi=None, o=None):
    """d defines c as c +/- k with k >= 1."""
    if d[2] == "A":
        rv = d[3][2]
        if rv[0] == "use":
            src = operand_local(rv[1])
            if src is None:
                return False
            dd = body.single_def(src)
            if not dd:
                return False
            return _is_step(body, ev, c, dd, up, broot, guard_bi, o)
        if rv[0] == "bin" and rv[1] in (("Add", "AddUnchecked") if up else ("Sub", "SubUnchecked")):
            a, k = rv[2], rv[3]
            la = operand_local(a)
            if la is None or _copy_root(body, la) != c:
                if up and operand_local(k) is not None and _copy_root(body, operand_local(k)) == c:
                    a, k = k, a
                else:
                    return False
            return _positive(body, ev, k, d[0], c, broot, guard_bi, o)
        return False
    if d[2] == "call":
        t = d[3]
        nm = t[1]["f"]
        if nm.endswith("wrapping_add" if up else "wrapping_sub") and len(t[2]) == 2:
            la = operand_local(t[2][0])
            if la is None or _copy_root(body, la) != c:
                return False
            iv = ev.at_block(d[0]).op_ival(t[2][1], d[0])
            return iv is not None and iv[0] >= 1
    return False


def _every_cycle_steps(body, header, blocks, step_blocks):
    """no cycle through the header avoids all step blocks: remove them and look for a path header -> header."""
    stop = set(step_blocks)
    if header in stop:
        return True
    seen = set()
    st = [s for s in body.succ[header] if s in blocks]
    while st:
        x = st.pop()
        if x == header:
            return False
        if x in seen or x in stop or x not in blocks:
            continue
        seen.add(x)
        st.extend(body.succ[x])
    return True


def run_loops(facts, run, prop, scope=None):
    """scope: optional set of fn ids."""
    tab = load_table()
    reviewed = [(re.compile(e["fn"]), e) for e in tab.get("reviewed", [])]
    cfg = facts.config
    n_iter = n_counter = n_rev = 0
    for fn in facts.fns.values():
        if not fn["file"].startswith("src/") or (scope is not None and fn["id"] not in scope):
            continue
        body = Body(fn)
        loops = body.loops()
        if not loops:
            continue
        ev = FnEval(facts, body)
        unknown = 0
        for h, blocks in sorted(loops.items()):
            kind, detail = classify(facts, fn, body, h, blocks, ev)
            if kind == "iter":
                n_iter += 1
                run.oblige()
            elif kind == "counter":
                n_counter += 1
                run.oblige()
                if n_counter % 5 == 0:
                    run.sample("R19c %s: counter loop, %s (config %s)" % (fn["name"], detail, cfg))
            else:
                unknown += 1
        if unknown:
            nm = norm_name(fn["name"])
            ent = [e for (r, e) in reviewed if r.fullmatch(nm)]
            allowed = max([e.get("loops", 1) for e in ent] or [0])
            if unknown <= allowed:
                n_rev += unknown
                run.oblige(unknown)
            else:
                run.oblige(ok=False)
                run.add(Finding("R19c", "%s|%d" % (nm, unknown),
                                "totality R19c: %s (%s:%s) has %d loop(s) that are neither iterator-bounded nor counter loops "
                                "stepping towards their bound on every cycle (reviewed: %d): termination is not established" % (
                                    fn["name"], fn["file"], fn["line"], unknown, allowed),
                                config=cfg, site="%s:%s" % (fn["file"], fn["line"]), prop=prop))
    run.stats = getattr(run, "stats", {})
    run.stats.update(loops_iterator=n_iter, loops_counter=n_counter, loops_reviewed=n_rev)
    return n_iter + n_counter
