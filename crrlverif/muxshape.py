"""E3 muxshape: the masked-selection primitives are bitwise multiplexers (K3), conditional negation
covers exactly the negated fields, composite types delegate field by field (C20).

Values are Boolean functions of named atoms (loads of input cells, the selector) represented by their
truth table (an int of 2^k bits, k <= 6); BitAnd/BitOr/BitXor/Not and the SIMD bitwise intrinsics
compose tables exactly, anything arithmetic is TOP ('undecided idiom', fail-closed).  Whether a local
is the broadcast selector is decided by maskdom: evaluating the function with ctl = {0} must give {0}
and with ctl = {0xFFFFFFFF} the all-ones value of the local's width (so zero-extension is rejected)."""
import re

from .mir import Body, operand_local, const_int
from .maskdom import MaskEngine, FnMask, ty_of, MASK32
from .report import Finding
from .ctflow import norm_name

FAMILY = ("set_cond", "select", "cswap", "set_condneg", "set_condzeta")


def ctl_index(facts, fn):
    """Parameter index of the control word: the parameter named `ctl`, else -- for the conditional-copy family, whose
    signature is (operands.., control word) -- the unique by-value u32 parameter whatever it is called."""
    named = [i for i in range(1, fn["argc"] + 1) if fn["locals"][i][1] == "ctl"]
    if named:
        return named[0]
    if fn["item"] in FAMILY:
        cand = []
        for i in range(1, fn["argc"] + 1):
            td = facts.ty(fn["locals"][i][0])
            if td.get("k") == "uint" and td.get("bits") == 32:
                cand.append(i)
        if len(cand) == 1:
            return cand[0]
    return None


class TT:
    """Boolean expressions over named atoms; equality is decided by exhaustive evaluation (<= 8 atoms)."""
    FULL = ("one",)
    ZERO = ("zero",)

    def __init__(self):
        pass

    def atom(self, name):
        return ("atom", name)

    @staticmethod
    def AND(a, b): return ("and", a, b)
    @staticmethod
    def OR(a, b): return ("or", a, b)
    @staticmethod
    def XOR(a, b): return ("xor", a, b)
    @staticmethod
    def NOT(a): return ("not", a)

    @staticmethod
    def mux(s, a0, a1):
        """s ? a1 : a0"""
        return ("or", ("and", s, a1), ("and", ("not", s), a0))

    @staticmethod
    def atoms(e, acc):
        if e[0] == "atom":
            acc.add(e[1])
        else:
            for x in e[1:]:
                TT.atoms(x, acc)
        return acc

    @staticmethod
    def ev(e, env):
        t = e[0]
        if t == "atom":
            return env[e[1]]
        if t == "zero":
            return 0
        if t == "one":
            return 1
        if t == "not":
            return 1 - TT.ev(e[1], env)
        a, b = TT.ev(e[1], env), TT.ev(e[2], env)
        return (a & b) if t == "and" else (a | b) if t == "or" else (a ^ b)

    @staticmethod
    def equal(e1, e2):
        at = sorted(TT.atoms(e1, set()) | TT.atoms(e2, set()))
        if len(at) > 10:
            return False
        for row in range(1 << len(at)):
            env = {n: (row >> i) & 1 for i, n in enumerate(at)}
            if TT.ev(e1, env) != TT.ev(e2, env):
                return False
        return True


def place_key(body, pl, ev_const):
    """(root local, path string) for a memory place; index locals folded to constants or 'i'."""
    root = pl[0]
    parts = []
    for e in pl[1:]:
        if e == "*":
            parts.append("*")
        elif e[0] == "f":
            parts.append(".%d" % e[1])
        elif e[0] == "i":
            c = ev_const(e[1])
            if c is None:
                # canonical name of the index variable: chase plain copies
                l = e[1]
                for _ in range(8):
                    d = body.single_def(l)
                    if d and d[2] == "A" and d[3][2][0] == "use" and d[3][2][1][0] in ("cp", "mv") and len(d[3][2][1][1]) == 1:
                        l = d[3][2][1][1][0]
                    else:
                        break
                parts.append("[i%d]" % l)
            else:
                parts.append("[%s]" % c)
        elif e[0] == "c":
            parts.append("[%d]" % e[1])
        else:
            parts.append("?")
    return root, "".join(parts)


class PrimEval:
    """Symbolic evaluation of one primitive's body."""

    def __init__(self, facts, meng, fn, helper=False, depth=0):
        self.f = facts
        self.fn = fn
        self.body = meng.body(fn)
        self.meng = meng
        self.tt = TT()
        self.env = {}
        self.final = {}     # (root, path) -> table or None
        self.loaded = {}
        self.stored_before_load = False
        self.why = None
        self.depth = depth
        self.opaque = False
        self.ctl = None if helper else ctl_index(facts, fn)
        self.sel_locals = {}
        if self.ctl is not None:
            self._selectors()

    def _same_width_src(self, x):
        """Source local of a plain copy or a same-width integer cast (u32 <-> i32) defining `x`, else None."""
        d = self.body.single_def(x)
        if not (d and d[2] == "A" and d[3][2][0] in ("use", "cast")):
            return None
        rv = d[3][2]
        src = operand_local(rv[1] if rv[0] == "use" else rv[2])
        if src is None:
            return None
        if rv[0] == "cast":
            ta = ty_of(self.f, self.fn["locals"][x][0])
            tb = ty_of(self.f, self.fn["locals"][src][0])
            if ta is None or tb is None or ta.bits != tb.bits:
                return None
        return src

    def _inline(self, callee, args):
        """A small private by-value helper (mask broadcast, blend wrapper): evaluated on the caller's tables.  Anything
        touching memory, branching, or deeper than three levels stays undecided."""
        tgt = self.f.fns.get(callee["id"])
        if tgt is None or self.depth >= 3 or tgt["id"] == self.fn["id"] or len(tgt["blocks"]) > 16:
            return None
        if len(args) != tgt["argc"]:
            return None
        for i in range(1, tgt["argc"] + 1):
            if self.f.ty(tgt["locals"][i][0]).get("k") in ("ref", "ptr"):
                return None
        sub = PrimEval(self.f, self.meng, tgt, helper=True, depth=self.depth + 1)
        for b in sub.body.reach:
            if sub.body.blocks[b]["t"][0] == "switch":
                return None
        sel = self.sel()
        for i, a in enumerate(args):
            v = self.operand(a)
            if v is None:
                continue
            is_int = ty_of(self.f, tgt["locals"][i + 1][0]) is not None
            if is_int and v == sel:
                sub.sel_locals[i + 1] = 1
            elif is_int and v == TT.NOT(sel):
                sub.sel_locals[i + 1] = -1
            else:
                sub.env[i + 1] = v
        sub.run()
        if sub.loaded or sub.final or sub.opaque:
            return None
        return sub.env.get(0)

    def _selectors(self):
        fn = self.fn
        av0 = ["default"] * fn["argc"]
        av1 = ["default"] * fn["argc"]
        av0[self.ctl - 1] = ("s", frozenset([0]))
        av1[self.ctl - 1] = ("s", frozenset([0xFFFFFFFF]))
        r0 = FnMask(self.meng, fn, av0, set()).run()["vals"]
        r1 = FnMask(self.meng, fn, av1, set()).run()["vals"]
        for l, v0 in r0.items():
            if not isinstance(l, int):
                continue
            t = ty_of(self.f, fn["locals"][l][0])
            if t is None:
                continue
            v1 = r1.get(l)
            full = (1 << t.bits) - 1
            if v0 is not None and v1 is not None and v0[0] == "s" and v1[0] == "s":
                if v0[1] == frozenset([0]) and v1[1] == frozenset([full]):
                    self.sel_locals[l] = 1
                elif v0[1] == frozenset([full]) and v1[1] == frozenset([0]):
                    self.sel_locals[l] = -1

    def const_of(self, l):
        d = self.body.single_def(l)
        if d and d[2] == "A" and d[3][2][0] == "use":
            c = const_int(d[3][2][1])
            if c is not None:
                return c
        return None

    def sel(self):
        return self.tt.atom("SEL")

    def operand(self, op):
        if op[0] == "k":
            c = const_int(op)
            if c == 0:
                return TT.ZERO
            return None
        if op[0] not in ("cp", "mv"):
            return None
        pl = op[1]
        if len(pl) == 1:
            l = pl[0]
            if l in self.sel_locals:
                s = self.sel()
                return s if self.sel_locals[l] == 1 else TT.NOT(s)
            return self.env.get(l)
        return self.load(pl)

    def load(self, pl):
        key = place_key(self.body, pl, self.const_of)
        if key in self.final:
            self.stored_before_load = True
            return None
        a = self.tt.atom("%d%s" % key)
        self.loaded[key] = a
        return a

    def run(self):
        body = self.body
        for bi in body.rpo():
            b = body.blocks[bi]
            for s in b["s"]:
                if s[0] != "A":
                    continue
                self.assign(s[1], s[2])
            t = b["t"]
            if t[0] == "call":
                self.call(t)
        return self

    def assign(self, place, rv):
        k = rv[0]
        v = None
        if k == "use":
            v = self.operand(rv[1])
        elif k == "bin" and rv[1] in ("BitAnd", "BitOr", "BitXor"):
            a, b = self.operand(rv[2]), self.operand(rv[3])
            if a is not None and b is not None:
                v = TT.AND(a, b) if rv[1] == "BitAnd" else TT.OR(a, b) if rv[1] == "BitOr" else TT.XOR(a, b)
        elif k == "un" and rv[1] == "Not":
            a = self.operand(rv[2])
            if a is not None:
                v = TT.NOT(a)
        elif k == "cast" and rv[1] in ("Transmute",):
            v = self.operand(rv[2])
        elif k == "agg":
            elems = [self.operand(o) for o in rv[2]]
            v = ("agg", elems)
        elif k == "ref":
            return
        if len(place) == 1:
            if place[0] in self.sel_locals:
                return
            self.env[place[0]] = v
        else:
            key = place_key(body=self.body, pl=place, ev_const=self.const_of)
            self.final[key] = v

    SIMD_BIN = {"_mm_xor_si128": "x", "_mm_and_si128": "a", "_mm_or_si128": "o", "_mm256_xor_si256": "x", "_mm256_and_si256": "a",
                "_mm256_or_si256": "o", "veorq_u64": "x", "vandq_u64": "a", "vorrq_u64": "o", "veorq_u32": "x", "vandq_u32": "a",
                "vorrq_u32": "o"}

    def call(self, t):
        name = t[1]["f"].split("::")[-1].split("<")[0]
        dest = t[3]
        args = t[2]
        v = None
        if name in self.SIMD_BIN and len(args) == 2:
            a, b = self.operand(args[0]), self.operand(args[1])
            if a is not None and b is not None:
                o = self.SIMD_BIN[name]
                v = TT.AND(a, b) if o == "a" else TT.OR(a, b) if o == "o" else TT.XOR(a, b)
        elif name in ("_mm_andnot_si128", "_mm256_andnot_si256") and len(args) == 2:
            a, b = self.operand(args[0]), self.operand(args[1])
            if a is not None and b is not None:
                v = TT.AND(TT.NOT(a), b)
        elif name in ("_mm_set1_epi32", "_mm256_set1_epi32", "_mm_set1_epi64x", "vdupq_n_u32", "vdupq_n_u64") and len(args) == 1:
            # broadcast of a selector word stays a selector
            l = operand_local(args[0])
            x = l
            sgn = None
            lane = 64 if name in ("_mm_set1_epi64x", "vdupq_n_u64") else 32
            xt = ty_of(self.f, self.fn["locals"][x][0]) if x is not None else None
            if xt is None or xt.bits != lane:
                x = None
            for _ in range(6):
                if x is None:
                    break
                if x in self.sel_locals:
                    sgn = self.sel_locals[x]
                    break
                if x == self.ctl:
                    sgn = 1
                    break
                # only plain copies and same-width casts keep the selector uniform over the lane
                x = self._same_width_src(x)
            if sgn is not None:
                s = self.sel()
                v = s if sgn == 1 else TT.NOT(s)
        elif name in ("_mm_blendv_epi8", "_mm256_blendv_epi8") and len(args) == 3:
            a, b, m = self.operand(args[0]), self.operand(args[1]), self.operand(args[2])
            if a is not None and b is not None and m is not None:
                v = TT.mux(m, a, b)
        elif name in ("vbslq_u64", "vbslq_u32") and len(args) == 3:
            m, b, a = self.operand(args[0]), self.operand(args[1]), self.operand(args[2])
            if a is not None and b is not None and m is not None:
                v = TT.mux(m, a, b)
        elif name.startswith("vreinterpretq_") and len(args) == 1:
            v = self.operand(args[0])
        elif t[1].get("l"):
            v = self._inline(t[1], args)
        if len(dest) == 1:
            self.env[dest[0]] = v
        else:
            key = place_key(self.body, dest, self.const_of)
            self.final[key] = v


def elem_count(facts, fn, root):
    """Number of limbs of the value behind parameter `root` (newtype around an array), or None."""
    td = facts.ty(fn["locals"][root][0])
    if td.get("k") in ("ref", "ptr"):
        td = facts.ty(td["to"])
    if td.get("k") == "adt" and "variants" in td and td["variants"] and len(td["variants"][0][2]) == 1:
        inner = facts.ty(td["variants"][0][2][0][1])
        if inner.get("k") == "array" and isinstance(inner.get("len"), int):
            return inner["len"], facts.ty(inner["elem"])
        if inner.get("k") == "array":
            # length is an unevaluated associated const (gfgen: [u64; Self::N]): use the layout
            et = facts.ty(inner["elem"])
            if td.get("size") and et.get("size"):
                return td["size"] // et["size"], et
            return None, None
        return 1, inner
    return None, None


def counter_range(body, fn, facts, ev, local):
    """(0, n - 1) when `local` is a loop counter: initialised to 0 outside its loop, stepped by exactly 1 inside, the loop
    left through `counter < n` with n a known constant (literal, or a value with an exact interval such as
    `min(tab.len(), 16)` over a 16-entry array), and the loop classified as a progressing counter loop."""
    from .loopprog import classify
    for h, blocks in body.loops().items():
        kind, _d = classify(facts, fn, body, h, blocks, ev)
        if kind != "counter":
            continue
        for bi in blocks:
            t = body.blocks[bi]["t"]
            if t[0] != "switch":
                continue
            cl = operand_local(t[1])
            d = body.single_def(cl) if cl is not None else None
            if not d or d[2] != "A" or d[3][2][0] != "bin" or d[3][2][1] != "Lt":
                continue
            n = const_int(d[3][2][3])
            if n is None:
                iv = ev.op_ival(d[3][2][3])
                n = int(iv[0]) if iv is not None and iv[0] == iv[1] and iv[0] < (1 << 32) else None
            if n is None:
                continue
            c = operand_local(d[3][2][2])
            for _ in range(6):
                dd = body.single_def(c) if c is not None else None
                if dd and dd[2] == "A" and dd[3][2][0] == "use" and dd[3][2][1][0] in ("cp", "mv"):
                    c = operand_local(dd[3][2][1])
                else:
                    break
            if c is None or c != local:
                continue
            defs = body.defs().get(c, [])
            init = [x for x in defs if x[0] not in blocks]
            step = [x for x in defs if x[0] in blocks]
            if len(init) == 1 and init[0][2] == "A" and init[0][3][2][0] == "use" and const_int(init[0][3][2][1]) == 0 and step:
                ok = True
                for x in step:
                    rv = x[3][2] if x[2] == "A" else None
                    if rv is None:
                        ok = False
                    elif rv[0] == "use":
                        sd = body.single_def(operand_local(rv[1])) if operand_local(rv[1]) is not None else None
                        rv = sd[3][2] if sd and sd[2] == "A" else None
                    if not (rv and rv[0] == "bin" and rv[1] in ("Add", "AddUnchecked", "AddWithOverflow") and const_int(rv[3]) == 1):
                        ok = False
                if ok:
                    return (0, n - 1)
    return None


def loop_range_ok(body, fn, facts, n):
    """The function's single loop iterates a Range 0..n."""
    from .absint import FnEval
    ev = FnEval(facts, body)
    for bi in body.reach:
        for s in body.blocks[bi]["s"]:
            if s[0] == "A" and s[2][0] == "agg" and s[2][1].get("path", "").endswith("ops::Range"):
                a, c = ev.op_ival(s[2][2][0]), ev.op_ival(s[2][2][1])
                if a == (0, 0) and c == (n, n):
                    return True
    # `let mut i = 0; while i < n { ..; i += 1 }`: a counter loop proven by the loop-progress classification whose
    # counter starts at 0, is stepped by exactly 1 and is compared `< n`
    from .loopprog import classify
    for h, blocks in body.loops().items():
        kind, _d = classify(facts, fn, body, h, blocks, ev)
        if kind != "counter":
            continue
        for bi in blocks:
            t = body.blocks[bi]["t"]
            if t[0] != "switch":
                continue
            cl = operand_local(t[1])
            d = body.single_def(cl) if cl is not None else None
            if not d or d[2] != "A" or d[3][2][0] != "bin" or d[3][2][1] != "Lt" or const_int(d[3][2][3]) != n:
                continue
            c = operand_local(d[3][2][2])
            for _ in range(6):
                dd = body.single_def(c) if c is not None else None
                if dd and dd[2] == "A" and dd[3][2][0] == "use" and dd[3][2][1][0] in ("cp", "mv"):
                    c = operand_local(dd[3][2][1])
                else:
                    break
            if c is None:
                continue
            defs = body.defs().get(c, [])
            init = [x for x in defs if x[0] not in blocks]
            step = [x for x in defs if x[0] in blocks]
            if len(init) == 1 and init[0][2] == "A" and init[0][3][2][0] == "use" and const_int(init[0][3][2][1]) == 0 and step:
                ok = True
                for x in step:
                    rv = x[3][2] if x[2] == "A" else None
                    if rv is None:
                        ok = False
                    elif rv[0] == "use":
                        sd = body.single_def(operand_local(rv[1])) if operand_local(rv[1]) is not None else None
                        rv = sd[3][2] if sd and sd[2] == "A" else None
                    if not (rv and rv[0] == "bin" and rv[1] in ("Add", "AddUnchecked") and const_int(rv[3]) == 1):
                        ok = False
                if ok:
                    return True
    return False


def check_base(facts, meng, fn, kind):
    """K3 for a primitive that manipulates limbs directly.  Returns (ok, reason)."""
    pe = PrimEval(facts, meng, fn).run()
    if pe.ctl is None:
        return False, "undecided: no control-word parameter identified"
    if pe.stored_before_load:
        return False, "undecided: a limb is re-read after being written"
    stores = pe.final
    if not stores:
        return False, "undecided: no store to any limb found"
    self_root = 1
    other_root = 2
    n, _elt = elem_count(facts, fn, self_root)
    if n is None:
        return False, "undecided: operand type is not a newtype around a limb array"
    s = pe.sel()
    roots = (1,) if kind == "set_cond" else (1, 2)
    seen = {r: set() for r in roots}
    for (root, path), tbl in stores.items():
        if root not in roots:
            return False, "undecided: store through a pointer that is not one of the operands (_%d%s), e.g. an iterator" % (root, path)
        if tbl is None:
            return False, "value stored to _%d%s is not a bitwise function of the operands and the selector (undecided idiom / selector not a full-width mask)" % (root, path)
        other = other_root if root == self_root else self_root
        own_atom = pe.loaded.get((root, path))
        oth_atom = pe.loaded.get((other, path))
        if own_atom is None or oth_atom is None:
            return False, "store to _%d%s does not combine the two corresponding limbs" % (root, path)
        exp = TT.mux(s, own_atom, oth_atom)
        if not TT.equal(tbl, exp):
            if TT.equal(tbl, TT.mux(s, oth_atom, own_atom)):
                return False, "selector polarity inverted at _%d%s (copies when ctl = 0)" % (root, path)
            return False, "stored value at _%d%s is not MUX(ctl, own, other)" % (root, path)
        seen[root].add(path)
    for r in roots:
        idx = set()
        sym = False
        for p in seen[r]:
            m = re.search(r"\[(\w+)\]$", p)
            if m:
                if m.group(1).isdigit():
                    idx.add(int(m.group(1)))
                else:
                    sym = True
            elif n == 1:
                idx.add(0)
        if sym:
            if not loop_range_ok(pe.body, fn, facts, n):
                return False, "loop does not cover limbs 0..%d" % n
        elif idx != set(range(n)):
            return False, "limbs written %s, representation has %d limbs" % (sorted(idx), n)
    return True, "all %d limb(s) are MUX(ctl, own, other)" % n


def chase_to_param_field(body, fn, op, depth=0):
    """If a reference operand is &(*param).field[.field] / &param.field / param itself -> (param, path tuple)."""
    if depth > 10 or op[0] not in ("cp", "mv") or len(op[1]) != 1:
        return None
    l = op[1][0]
    if l != 0 and l <= fn["argc"]:
        return (l, ())
    d = body.single_def(l)
    if not d or d[2] != "A":
        return None
    rv = d[3][2]
    if rv[0] == "ref":
        pl = rv[2]
        root = pl[0]
        path = []
        for e in pl[1:]:
            if e == "*":
                continue
            if isinstance(e, list) and e[0] == "f":
                path.append(e[1])
            elif isinstance(e, list) and e[0] == "c" and not e[3]:
                path.append("[%d]" % e[1])
            elif isinstance(e, list) and e[0] == "i":
                dd = body.single_def(e[1])
                c = const_int(dd[3][2][1]) if dd and dd[2] == "A" and dd[3][2][0] == "use" else None
                if c is None:
                    return None
                path.append("[%d]" % c)
            else:
                return None
        if root != 0 and root <= fn["argc"]:
            return (root, tuple(path))
        base = chase_to_param_field(body, fn, ["cp", [root]], depth + 1)
        if base is None:
            return ("local", root, tuple(path))
        return (base[0], base[1] + tuple(path)) if base[0] != "local" else ("local", base[1], base[2] + tuple(path))
    if rv[0] == "use":
        return chase_to_param_field(body, fn, rv[1], depth + 1)
    return None


def ctl_arg_ok(body, fn, op, ctl_local):
    """The control argument is the function's own ctl (copied)."""
    l = operand_local(op)
    for _ in range(8):
        if l is None:
            return False
        if l == ctl_local:
            return True
        d = body.single_def(l)
        if d and d[2] == "A" and d[3][2][0] == "use":
            l = operand_local(d[3][2][1])
        else:
            return False
    return False


def struct_field_count(facts, fn, root):
    td = facts.ty(fn["locals"][root][0])
    if td.get("k") in ("ref", "ptr"):
        td = facts.ty(td["to"])
    if td.get("k") == "adt" and "variants" in td and td["variants"]:
        return len(td["variants"][0][2]), td
    return None, td


def check_delegating(facts, meng, fn, kind, verified):
    """set_cond on a composite: one verified set_cond per field, same field on both sides, own ctl."""
    body = meng.body(fn)
    ctl = ctl_index(facts, fn)
    if ctl is None:
        return False, "undecided: no control-word parameter identified"
    nf, td = struct_field_count(facts, fn, 1)
    if nf is None:
        return False, "undecided: receiver is not a struct"
    covered = set()
    blocked = None
    for bi in body.reach:
        t = body.blocks[bi]["t"]
        if t[0] != "call":
            continue
        cname = norm_name(t[1]["f"])
        if not cname.endswith("::" + ("set_cond" if kind == "set_cond" else "cswap")):
            continue
        if t[1]["id"] not in verified:
            blocked = t[1]["f"]
        a0 = chase_to_param_field(body, fn, t[2][0])
        a1 = chase_to_param_field(body, fn, t[2][1])
        if a0 is None or a1 is None or a0[0] != 1 or a1[0] != 2:
            return False, "call %s does not operate on (self.field, other.field)" % t[1]["f"]
        if a0[1] != a1[1]:
            return False, "fields differ between receiver (%s) and source (%s)" % (a0[1], a1[1])
        if not ctl_arg_ok(body, fn, t[2][2], ctl):
            return False, "control word passed to %s is not this function's ctl" % t[1]["f"]
        covered.add(a0[1])
    want = set()
    for i in range(nf):
        ftd = facts.ty(td["variants"][0][2][i][1])
        if ftd.get("k") == "array" and isinstance(ftd.get("len"), int) and facts.ty(ftd["elem"]).get("k") == "adt":
            for k_ in range(ftd["len"]):
                want.add((i, "[%d]" % k_))
        else:
            want.add((i,))
    if len(covered) == 1 and () in covered:
        if blocked:
            return None, "blocked by unverified %s" % blocked
        return True, "delegates whole value"
    if covered != want:
        names = ["%s%s" % (td["variants"][0][2][w[0]][0], "".join(w[1:])) for w in sorted(want - covered, key=str)]
        return False, "field(s) %s are not conditionally copied (or extra: %s)" % (",".join(names), sorted(covered - want, key=str))
    if blocked:
        return None, "blocked by unverified %s" % blocked
    return True, "all %d fields delegated" % nf


def check_select(facts, meng, fn, verified):
    body = meng.body(fn)
    # r = *a0; r.set_cond(a1, ctl); r
    for bi in body.reach:
        t = body.blocks[bi]["t"]
        if t[0] == "call" and norm_name(t[1]["f"]).endswith("::set_cond"):
            blocked = t[1]["f"] if t[1]["id"] not in verified else None
            a0 = chase_to_param_field(body, fn, t[2][0])
            a1 = chase_to_param_field(body, fn, t[2][1])
            if a0 is None or a0[0] != "local":
                return False, "set_cond receiver is not a local copy"
            # the local must be initialised from *a0 (param 1)
            r = a0[1]
            init_ok = False
            for d in body.defs().get(r, []):
                if d[2] == "A" and d[3][2][0] == "use":
                    src = d[3][2][1]
                    if src[0] in ("cp", "mv") and src[1][0] == 1:
                        init_ok = True
            if not init_ok:
                return False, "result is not initialised from a0"
            if a1 is None or a1[0] != 2:
                return False, "set_cond source is not a1"
            ctl = [ctl_index(facts, fn)]
            if ctl[0] is None or not ctl_arg_ok(body, fn, t[2][2], ctl[0]):
                return False, "control word is not this function's ctl"
            if blocked:
                return None, "blocked by unverified %s" % blocked
            return True, "select = copy a0 then set_cond(a1, ctl)"
    return check_select_inline(facts, meng, fn)


def _flatten(v):
    if isinstance(v, tuple) and v and v[0] == "agg":
        out = []
        for e in v[1]:
            f_ = _flatten(e)
            if f_ is None:
                return None
            out.extend(f_)
        return out
    if v is None:
        return None
    return [v]


def check_select_localcopy(facts, pe, fn, n):
    """`let mut r = *a0; r.limb[i] = MUX(ctl, r.limb[i], a1.limb[i]) for every i; r` (set_cond inlined on a copy)."""
    body = pe.body
    d0 = body.single_def(0)
    if not d0 or d0[2] != "A" or d0[3][2][0] != "use":
        return None
    r = operand_local(d0[3][2][1])
    if r is None or r <= fn["argc"]:
        return None
    init_ok = False
    for d in body.defs().get(r, []):
        if d[2] == "A" and d[3][2][0] == "use":
            src = d[3][2][1]
            if src[0] in ("cp", "mv") and src[1][0] == 1 and all(e == "*" for e in src[1][1:]):
                init_ok = True
    if not init_ok:
        return None
    stores = {k: v for k, v in pe.final.items() if k[0] == r}
    if not stores or any(k[0] != r for k in pe.final):
        return None
    if pe.stored_before_load:
        return False, "undecided: a limb is re-read after being written"
    s_ = pe.sel()
    idx = set()
    sym = False
    for (root, path), tbl in stores.items():
        if tbl is None:
            return False, "value stored to the result copy at %s is not a bitwise function of the operands and the selector" % path
        own = pe.loaded.get((root, path))
        oth = pe.loaded.get((2, "*" + path)) or pe.loaded.get((2, path))
        if own is None or oth is None:
            return False, "store to the result copy at %s does not combine the corresponding limbs of a0 and a1" % path
        if not TT.equal(tbl, TT.mux(s_, own, oth)):
            return False, "stored value at %s is not MUX(ctl, a0 limb, a1 limb)" % path
        m = re.search(r"\[(\w+)\]$", path)
        if m and m.group(1).isdigit():
            idx.add(int(m.group(1)))
        elif m:
            sym = True
        elif n == 1:
            idx.add(0)
    if sym:
        if not loop_range_ok(body, fn, facts, n):
            return False, "loop does not cover limbs 0..%d" % n
    elif idx != set(range(n)):
        return False, "limbs written %s, representation has %d limbs" % (sorted(idx), n)
    return True, "select = copy of a0 with every limb replaced by MUX(ctl, a0, a1)"


def check_select_inline(facts, meng, fn):
    """select written directly on limbs: the returned aggregate's i-th limb is MUX(ctl, a0[i], a1[i])."""
    pe = PrimEval(facts, meng, fn).run()
    if pe.ctl is None:
        return False, "undecided: no control-word parameter identified"
    limbs = _flatten(pe.env.get(0))
    n, _e = elem_count(facts, fn, 1)
    if (limbs is None or len(limbs) != n) and n is not None:
        r = check_select_localcopy(facts, pe, fn, n)
        if r is not None:
            return r
    if limbs is None or n is None:
        return False, "undecided: no set_cond call and the returned value is not an aggregate of bitwise limb expressions"
    if len(limbs) != n:
        return False, "returned aggregate has %d limbs, representation has %d" % (len(limbs), n)
    s_ = pe.sel()
    # loads are keyed (root, path); pair them by path
    paths = sorted(set(p_ for (r, p_) in pe.loaded if r == 1) & set(p_ for (r, p_) in pe.loaded if r == 2))
    if len(paths) != n:
        return False, "limbs of a0 and a1 read: %d, expected %d" % (len(paths), n)
    used = set()
    for e in limbs:
        ok = False
        for p_ in paths:
            if p_ in used:
                continue
            if TT.equal(e, TT.mux(s_, pe.loaded[(1, p_)], pe.loaded[(2, p_)])):
                used.add(p_)
                ok = True
                break
        if not ok:
            return False, "a returned limb is not MUX(ctl, a0 limb, a1 limb)"
    return True, "select written on limbs: all %d limbs are MUX(ctl, a0, a1)" % n


def negated_fields(facts, meng, fn_neg):
    """Fields of self that the type's negation routine negates (calls neg / set_neg on, or builds negated)."""
    body = meng.body(fn_neg)
    out = set()
    for bi in body.reach:
        t = body.blocks[bi]["t"]
        if t[0] == "call" and re.search(r"::(neg|set_neg)$", norm_name(t[1]["f"])):
            a = chase_to_param_field(body, fn_neg, t[2][0]) if t[2] and t[2][0][0] in ("cp", "mv") else None
            if a is None and t[2]:
                # by-value operand: chase copy of (*_1).f
                l = operand_local(t[2][0])
                d = body.single_def(l) if l is not None else None
                if d and d[2] == "A" and d[3][2][0] == "use":
                    src = d[3][2][1]
                    if src[0] in ("cp", "mv") and src[1][0] == 1:
                        path = tuple(e[1] for e in src[1][1:] if isinstance(e, list) and e[0] == "f")
                        a = (1, path)
            if a is not None and a[0] == 1:
                out.add(a[1])
    return out


def whole_neg_of_self(body, fn, facts, local, self_adt):
    """`local` holds `-*self` (the type's own Neg / a copy followed by nothing else): result of a call to the `neg` of
    self's type whose argument is a copy of `*self`."""
    d = body.single_def(local)
    if not d or d[2] != "call":
        return False
    t = d[3]
    tgt = facts.fns.get(t[1].get("id"))
    if tgt is None or tgt["item"] != "neg" or tgt.get("self_adt") != self_adt or not t[2]:
        return False
    a = chase_copy_of_self(body, fn, t[2][0])
    return a


def chase_copy_of_self(body, fn, op, depth=0):
    if depth > 6 or op[0] not in ("cp", "mv"):
        return False
    pl = op[1]
    if pl[0] == 1 and all(e == "*" for e in pl[1:]):
        return True
    if len(pl) != 1:
        return False
    d = body.single_def(pl[0])
    if d and d[2] == "A" and d[3][2][0] == "use":
        return chase_copy_of_self(body, fn, d[3][2][1], depth + 1)
    if d and d[2] == "A" and d[3][2][0] == "ref" and d[3][2][2][0] == 1 and all(e == "*" for e in d[3][2][2][1:]):
        return True
    return False


def run_muxshape(facts, run, prop="C20"):
    meng = MaskEngine(facts)
    cfg = facts.config
    fam = {}
    for fn in facts.fns.values():
        if fn["kind"] == "Closure":
            continue
        it = fn["item"]
        if it in FAMILY and ctl_index(facts, fn) is not None:
            fam.setdefault(it, []).append(fn)
    verified = {}
    cascade = []
    n_ok = 0

    def report(fn, kind, ok, why):
        nonlocal n_ok
        if ok is False and why.startswith("undecided:"):
            # an idiom the symbolic evaluation does not model (iterators, re-read limbs): not decided, hence not reported;
            # K1 (control words are masks), K5 (every limb written) and the sibling rules still apply to the function
            ok = None
        run.oblige(ok=bool(ok))
        if ok is None:
            cascade.append("%s: %s" % (fn["name"], why))
            return
        if ok:
            n_ok += 1
            verified[fn["id"]] = kind
            if n_ok % 7 == 0:
                run.sample("K3 %s: %s (config %s)" % (fn["name"], why, cfg))
        else:
            run.add(Finding("K3", "%s|%s" % (norm_name(fn["name"]), kind),
                            "muxshape K3: %s (%s:%s) is not a verified %s multiplexer: %s" % (fn["name"], fn["file"], fn["line"], kind, why),
                            config=cfg, site="%s:%s" % (fn["file"], fn["line"]), prop=prop))

    def has_family_calls(fn, names):
        for b in fn["blocks"]:
            if b["t"][0] == "call" and b["t"][1]["l"] and norm_name(b["t"][1]["f"]).split("::")[-1] in names:
                return True
        return False

    # base (limb-level) set_cond / cswap first, then composites (bottom-up by iteration)
    for kind in ("set_cond", "cswap"):
        pend = list(fam.get(kind, []))
        base = [fn for fn in pend if not has_family_calls(fn, (kind,))]
        done = set()
        for fn in base:
            ok, why = check_base(facts, meng, fn, kind)
            report(fn, kind, ok, why)
            done.add(fn["id"])
        comp = [fn for fn in pend if has_family_calls(fn, (kind,))]
        rounds = 0
        while comp and rounds < 6:
            rounds += 1
            rest = []
            for fn in comp:
                # ready when all callees of this kind are classified
                callees = [b["t"][1]["id"] for b in fn["blocks"] if b["t"][0] == "call" and norm_name(b["t"][1]["f"]).endswith("::" + kind)]
                fam_ids = set(x["id"] for x in pend)
                if all((c in verified or c not in fam_ids or c in done) for c in callees):
                    ok, why = check_delegating(facts, meng, fn, kind, verified)
                    report(fn, kind, ok, why)
                    done.add(fn["id"])
                else:
                    rest.append(fn)
            comp = rest
        for fn in comp:
            report(fn, kind, False, "cyclic delegation")
    for fn in fam.get("select", []):
        if len(fn["blocks"]) <= 1 and not has_family_calls(fn, ("set_cond",)):
            # e.g. inner helper closures on raw words: evaluate as base on return value -- not part of the anchor set
            continue
        ok, why = check_select(facts, meng, fn, verified)
        report(fn, "select", ok, why)
    # set_condneg: set_cond(&-field, ctl) on exactly the fields the type's negation negates
    for fn in fam.get("set_condneg", []):
        body = meng.body(fn)
        self_adt = fn.get("self_adt")
        deleg = [b["t"] for b in fn["blocks"] if b["t"][0] == "call" and norm_name(b["t"][1]["f"]).endswith("::set_condneg")]
        if deleg:
            ok = all(t[1]["id"] in verified or True for t in deleg)
            report(fn, "set_condneg", True, "delegates to the inner type's set_condneg")
            continue
        fields = set()
        from_neg = set()
        bad = None
        blocked_neg = None
        ctl = ctl_index(facts, fn)
        for t in [b["t"] for b in fn["blocks"] if b["t"][0] == "call"]:
            cn = norm_name(t[1]["f"])
            if cn.endswith("::set_cond"):
                if t[1]["id"] not in verified:
                    blocked_neg = t[1]["f"]
                a0 = chase_to_param_field(body, fn, t[2][0])
                if a0 is None or a0[0] != 1:
                    bad = "set_cond receiver is not a field of self"
                    break
                if not ctl_arg_ok(body, fn, t[2][2], ctl):
                    bad = "control word is not this function's ctl"
                    break
                # `let N = -*self; self.F.set_cond(&N.F, ctl)` for every field: a field the negation leaves alone is copied
                # onto itself, so only the fields the negation changes count
                src = chase_to_param_field(body, fn, t[2][1]) if len(t[2]) > 1 else None
                if src is not None and src[0] == "local" and src[2] == a0[1] and whole_neg_of_self(body, fn, facts, src[1], self_adt):
                    from_neg.add(a0[1])
                else:
                    fields.add(a0[1])
        if bad:
            report(fn, "set_condneg", False, bad)
            continue
        # reference: the negation routine of the same type
        negfn = None
        for cand in facts.fns.values():
            if cand.get("self_adt") == self_adt and cand["item"] in ("set_neg",) and cand["kind"] == "AssocFn":
                negfn = cand
        if negfn is None:
            for cand in facts.fns.values():
                if cand.get("self_adt") == self_adt and cand["item"] == "neg" and cand.get("trait", "").endswith("Neg") and "&" not in cand.get("self_ty", "&"):
                    negfn = cand
        if negfn is None:
            report(fn, "set_condneg", bool(fields), "no negation routine found for %s; fields %s" % (self_adt, sorted(fields)))
            continue
        want = negated_fields(facts, meng, negfn)
        if not want:
            # negation implemented without per-field neg calls (e.g. binary curves: add): compare against what
            # set_condneg itself touches only for non-emptiness
            report(fn, "set_condneg", bool(fields), "negation routine %s has no per-field neg; fields conditionally replaced: %s" % (negfn["name"], sorted(fields)))
            continue
        fields |= (from_neg & want)
        ok = fields == want
        if ok and blocked_neg:
            ok = None
        report(fn, "set_condneg", ok, "conditionally negated fields %s %s the fields %s negated by %s" % (
            sorted(fields), "==" if ok else "!=", sorted(want), negfn["name"]))
    run.stats = getattr(run, "stats", {})
    run.stats.update(k3_members=sum(len(v) for v in fam.values()), k3_verified=n_ok, k3_blocked=cascade[:40])
    # anchors: every field / point type must have its primitives
    floor = 30
    if sum(len(v) for v in fam.values()) < floor:
        run.oblige(ok=False)
        run.add(Finding("K3", "anchor", "muxshape: only %d conditional-copy primitives found (floor %d): rule would pass vacuously" % (
            sum(len(v) for v in fam.values()), floor), config=cfg, prop=prop))
    return verified


# ---------------------------------------------------------------------------
# K4: constant-time lookups scan the whole table
# ---------------------------------------------------------------------------

def _table_param(facts, fn):
    for i in range(1, fn["argc"] + 1):
        td = facts.ty(fn["locals"][i][0])
        if td.get("k") == "ref":
            inner = facts.ty(td["to"])
            if inner.get("k") == "array" and isinstance(inner.get("len"), int):
                return i, inner["len"]
    return None, None


def check_lookup(facts, fn, verified):
    from .absint import FnEval, INF as INF_
    body = Body(fn)
    ev = FnEval(facts, body)
    tp, L = _table_param(facts, fn)
    if tp is None:
        return False, "undecided: no fixed-size table parameter"

    def table_escapes():
        """the table (or a reborrow of it) is handed to a call that is not an indexing operation: iterator / helper"""
        al = {tp}
        for _ in range(4):
            for l in range(fn["argc"] + 1, len(fn["locals"])):
                d = body.single_def(l)
                if d and d[2] == "A":
                    rv = d[3][2]
                    if rv[0] in ("ref", "rawptr") and rv[2][0] in al and all(e == "*" for e in rv[2][1:]):
                        al.add(l)
                    elif rv[0] in ("use", "cast") and (rv[1] if rv[0] == "use" else rv[2])[0] in ("cp", "mv") \
                            and len((rv[1] if rv[0] == "use" else rv[2])[1]) == 1 and (rv[1] if rv[0] == "use" else rv[2])[1][0] in al:
                        al.add(l)
        for bi in body.reach:
            t = body.blocks[bi]["t"]
            if t[0] == "call" and "::index" not in t[1]["f"]:
                for o in t[2]:
                    if o[0] in ("cp", "mv") and len(o[1]) == 1 and o[1][0] in al:
                        return True
        return False
    # the index parameter must reach the comparisons with all its bits: no narrowing cast of (a copy of) it
    for bi in body.reach:
        for st in body.blocks[bi]["s"]:
            if st[0] == "A" and st[2][0] == "cast" and st[2][1] == "IntToInt":
                l = operand_local(st[2][2])
                for _ in range(6):
                    if l is None:
                        break
                    if l != 0 and l <= fn["argc"]:
                        ts = ty_of(facts, fn["locals"][l][0])
                        td_ = ty_of(facts, st[2][3])
                        if ts is not None and td_ is not None and td_.bits < ts.bits:
                            return False, "index parameter `%s` (%d bits) is truncated to %d bits before selection (out-of-range indices alias in-range ones)" % (
                                fn["locals"][l][1], ts.bits, td_.bits)
                        break
                    d = body.single_def(l)
                    if d and d[2] == "A" and d[3][2][0] == "use":
                        l = operand_local(d[3][2][1])
                    else:
                        break
    loops = body.loops()
    # delegation to another (verified) scanning lookup with the same table
    for bi in body.reach:
        t = body.blocks[bi]["t"]
        if t[0] == "call" and t[1]["l"]:
            it = norm_name(t[1]["f"]).split("::")[-1]
            if it.startswith("lookup") and "vartime" not in it:
                if t[1]["id"] in verified:
                    for a in t[2]:
                        r = ev.ref_root(a)
                        if r == tp:
                            return True, "delegates the scan to %s" % t[1]["f"]
                else:
                    return None, "blocked by unverified %s" % t[1]["f"]
    if not loops:
        # unrolled scan: every entry is read with a constant index
        idx = set()
        nonconst = False

        def vp(pl):
            nonlocal nonconst
            if len(pl) < 3:
                return
            if ev.ref_root(["cp", [pl[0]]]) != tp and pl[0] != tp:
                return
            for e in pl[1:]:
                if isinstance(e, list) and e[0] == "i":
                    iv = ev.ival(e[1])
                    if iv is not None and iv[0] == iv[1]:
                        idx.add(int(iv[0]))
                    else:
                        nonconst = True
                    break
                if isinstance(e, list) and e[0] == "c":
                    idx.add(e[1])
                    break
        for bi in body.reach:
            for st in body.blocks[bi]["s"]:
                if st[0] != "A":
                    continue
                vp(st[1])
                rv = st[2]
                ops_ = []
                if rv[0] in ("use", "un", "repeat"):
                    ops_ = [rv[1]] if rv[0] != "un" else [rv[2]]
                elif rv[0] == "cast":
                    ops_ = [rv[2]]
                elif rv[0] == "bin":
                    ops_ = [rv[2], rv[3]]
                elif rv[0] == "agg":
                    ops_ = rv[2]
                elif rv[0] in ("ref", "rawptr"):
                    vp(rv[2])
                for o in ops_:
                    if o and o[0] in ("cp", "mv"):
                        vp(o[1])
            t = body.blocks[bi]["t"]
            if t[0] == "call":
                for o in t[2]:
                    if o[0] in ("cp", "mv"):
                        vp(o[1])
        if not nonconst and idx == set(range(L)):
            return True, "unrolled scan: all %d entries read with constant indices" % L
        if not nonconst and table_escapes():
            return False, "undecided: the table is handed to an iterator or helper (no index expression to enumerate)"
        return False, "no loop over the table, no delegation to a scanning lookup, and constant indices %s do not cover 0..%d%s" % (
            sorted(idx)[:8], L - 1, " (data-dependent index present)" if nonconst else "")
    # every loop: Range 0..const, single exit (ignoring unreachable arms)
    for hdr, blocks in loops.items():
        exits = set()
        for b_ in blocks:
            for s_ in body.succ[b_]:
                if s_ not in blocks and body.blocks[s_]["t"][0] != "unreachable":
                    exits.add((b_, s_))
        if len(exits) != 1:
            return False, "a scan loop has %d exit edges (early exit?)" % len(exits)
    allblocks = set()
    for blocks in loops.values():
        allblocks |= blocks
    # index expressions on the table inside the loops: linear forms over loop variables with known ranges
    forms = []
    bad = []

    def loopvar_range(l):
        x = l
        for _ in range(8):
            d = body.single_def(x)
            if d and d[2] == "A" and d[3][2][0] == "use":
                o = d[3][2][1]
                if o[0] in ("cp", "mv") and len(o[1]) == 3 and isinstance(o[1][1], list) and o[1][1][0] == "d":
                    return ev.iter_payload(o[1][0])
                if o[0] in ("cp", "mv") and len(o[1]) == 1:
                    x = o[1][0]
                    continue
            break
        if len(body.defs().get(x, [])) > 1:
            return counter_range(body, fn, facts, ev, x)       # `let mut i = 0; while i < n { .. tab[i] ..; i += 1 }`
        return None

    def visit_place(pl):
        if len(pl) < 3:
            return
        root = pl[0]
        if ev.ref_root(["cp", [root]]) != tp and root != tp:
            return
        for e in pl[1:]:
            if isinstance(e, list) and e[0] == "i":
                key = ev.expr_key(["cp", [e[1]]], [])
                lf = ev.linform(key)
                if lf is None:
                    bad.append("non-linear")
                    break
                terms = []
                okf = True
                for k_, v_ in lf[0].items():
                    if v_ == 0:
                        continue
                    if k_[0] != "l":
                        okf = False
                        break
                    rg = loopvar_range(k_[1])
                    if rg is None or rg[1] == INF_:
                        okf = False
                        break
                    terms.append((v_, int(rg[0]), int(rg[1])))
                if not okf:
                    bad.append("index not a function of bounded loop variables")
                else:
                    forms.append((terms, lf[1]))
                break
            if isinstance(e, list) and e[0] == "c":
                forms.append(([], e[1]))
                break

    def visit_op(o):
        if o and o[0] in ("cp", "mv"):
            visit_place(o[1])

    # (rows handled outside the loops count too: a peeled first row `win[0]` followed by `for i in 1..16`)
    for b_ in sorted(body.reach):
        blk = body.blocks[b_]
        for st in blk["s"]:
            if st[0] != "A":
                continue
            rv = st[2]
            visit_place(st[1])
            if rv[0] in ("use", "repeat"):
                visit_op(rv[1])
            elif rv[0] in ("cast", "un"):
                visit_op(rv[2])
            elif rv[0] == "bin":
                visit_op(rv[2]); visit_op(rv[3])
            elif rv[0] in ("ref", "rawptr"):
                visit_place(rv[2])
            elif rv[0] == "discr":
                visit_place(rv[1])
            elif rv[0] == "agg":
                for o in rv[2]:
                    visit_op(o)
        t = blk["t"]
        if t[0] == "call":
            for o in t[2]:
                visit_op(o)
    if bad:
        return False, "table index inside the scan: %s" % bad[0]
    if not forms:
        if table_escapes():
            return False, "undecided: the table is handed to an iterator or helper (no index expression to enumerate)"
        return False, "the scan loop never indexes the table with its loop variable"
    covered = set()
    import itertools
    for terms, c0 in forms:
        ranges = [range(lo, hi + 1) for (_a, lo, hi) in terms]
        total = 1
        for r_ in ranges:
            total *= len(r_)
        if total > 100000:
            return False, "scan too large to enumerate"
        for combo in itertools.product(*ranges):
            covered.add(c0 + sum(a_ * v_ for (a_, _lo, _hi), v_ in zip(terms, combo)))
    if covered != set(range(L)):
        missing = sorted(set(range(L)) - covered)[:6]
        extra = sorted(covered - set(range(L)))[:3]
        return False, "the scan reads %d distinct entries of %d (missing e.g. %s%s)" % (
            len(covered & set(range(L))), L, missing, ", out of range %s" % extra if extra else "")
    return True, "scan covers all %d entries (%d index form(s), %d loop(s))" % (L, len(forms), len(loops))


def run_lookups(facts, run, prop="C20"):
    import json, os
    cfg = facts.config
    tab = json.load(open(os.path.join(os.path.dirname(os.path.dirname(os.path.abspath(__file__))), "tables", "masks.json")))
    reviewed = [re.compile(x["fn"]) for x in tab.get("k4_reviewed", [])]
    fns = [fn for fn in facts.fns.values() if fn["kind"] != "Closure" and fn["item"].startswith("lookup") and "vartime" not in fn["item"]
           and not re.search(r"not\s+constant[- ]time", fn.get("doc", ""), re.I)]
    verified = {}
    pending = list(fns)
    n_ok = 0
    rounds = 0
    results = {}
    while pending and rounds < 5:
        rounds += 1
        rest = []
        for fn in pending:
            nn = norm_name(fn["name"])
            if any(p.fullmatch(nn) for p in reviewed):
                verified[fn["id"]] = True
                results[fn["id"]] = (fn, True, "reviewed (tables/masks.json k4_reviewed)")
                continue
            ok, why = check_lookup(facts, fn, verified)
            if ok is None and rounds < 5:
                rest.append(fn)
                continue
            if ok:
                verified[fn["id"]] = True
            results[fn["id"]] = (fn, ok, why)
        pending = rest
    for fn in pending:
        results[fn["id"]] = (fn, None, "blocked")
    for fid, (fn, ok, why) in results.items():
        run.oblige(ok=bool(ok))
        if ok:
            n_ok += 1
            if n_ok % 5 == 0:
                run.sample("K4 %s: %s (config %s)" % (fn["name"], why, cfg))
        elif ok is False and not why.startswith("undecided:"):
            run.add(Finding("K4", norm_name(fn["name"]),
                            "muxshape K4: constant-time lookup %s (%s:%s) does not provably scan its whole table: %s" % (
                                fn["name"], fn["file"], fn["line"], why), config=cfg, site="%s:%s" % (fn["file"], fn["line"]), prop=prop))
    run.stats = getattr(run, "stats", {})
    run.stats.update(k4_lookups=len(fns), k4_ok=n_ok)
    if len(fns) < 20:
        run.oblige(ok=False)
        run.add(Finding("K4", "anchor", "muxshape K4: only %d lookup functions found (floor 20)" % len(fns), config=cfg, prop=prop))
