#!/bin/bash
# Runs every kept seed against the check(s) of its property; prints one line per seed.  PAR=<n> seeds in parallel.
V=$(cd "$(dirname "$0")/.." && pwd); cd $V
(cd $V/mirfacts && cargo build --release --offline -q) 2>/dev/null
one() {
  d=$1; id=$(basename $d); prop=${id%-*}
  extra=$(python3 -c "
import json;m=json.load(open('$d/meta.json'));print(' '.join(m.get('also_check',[])))" 2>/dev/null)
  cc=$(python3 -c "
import json;m=json.load(open('$d/meta.json'));print(m.get('check_configs',''))" 2>/dev/null)
  out=""
  for P in $prop $extra; do
    r=$(MAXL=2 CONFIGS=${CONFIGS:-$cc} tools/run_seed.sh $d/patch.diff $P 2>&1 | grep "^== \|rule=" | tr '\n' ' ' | cut -c1-160)
    out="$out $r"
  done
  echo "$id $out"
}
export -f one
ls -d ${SEEDS:-$V/seeded/*/} | xargs -P ${PAR:-4} -I{} bash -c 'one {}'
