#!/bin/bash
# Runs every kept seed against the check(s) of its property; prints one line per seed.
V=$(cd "$(dirname "$0")/.." && pwd); cd $V
(cd $V/mirfacts && cargo build --release --offline -q) 2>/dev/null
for d in ${SEEDS:-seeded/*/}; do
  id=$(basename $d); prop=${id%-*}
  props="$prop"
  extra=$(python3 -c "
import json;m=json.load(open('$d/meta.json'));print(' '.join(m.get('also_check',[])))" 2>/dev/null)
  out=""
  cc=$(python3 -c "
import json;m=json.load(open('$d/meta.json'));print(m.get('check_configs',''))" 2>/dev/null)
  for P in $props $extra; do
    if ./check $P --explain /dev/null >/dev/null 2>&1; then :; fi
    r=$(MAXL=0 CONFIGS=${CONFIGS:-$cc} tools/run_seed.sh $V/$d/patch.diff $P 2>&1 | grep "^== " | tr '\n' ' ')
    out="$out $r"
  done
  echo "$id $out"
done
