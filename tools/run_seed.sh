#!/bin/bash
# run_seed.sh <patch.diff> <prop> [<prop>...]: apply a patch to a scratch copy of /repo (never /repo itself),
# run the named checks against it (quick tier unless TIER is set), print their verdict lines, remove the copy.
PATCH=$1; shift
S=$(mktemp -d /tmp/seedrun.XXXXXX)
rsync -a --exclude target --exclude .git /repo/ $S/
if ! (cd $S && patch -p1 -s --no-backup-if-mismatch < $PATCH) >/dev/null 2>&1; then echo "PATCH-FAILED $PATCH"; rm -rf $S; exit 3; fi
for P in "$@"; do
  out=$(cd "$(dirname "$0")/.." && CRRL_REPO=$S CRRL_EVIDENCE_DIR=$S/evidence CRRL_CONFIGS=${CONFIGS:-} ./check $P --tier ${TIER:-quick} 2>&1)
  nv=$(echo "$out" | grep -c "^VIOLATION")
  echo "== $P violations=$nv"
  echo "$out" | grep -A3 "^VIOLATION" | grep -v "^--" | cut -c1-330 | head -${MAXL:-8}
done
rm -rf $S
# evidence files were rewritten against the scratch copy: callers should re-run the checks on /repo afterwards
