#!/usr/bin/env python3
"""Development-time generator for tables/gates.json.

Each family lists, per function pattern, the *classes* of check facts that the
specification of that function mandates (one line per conjunct, with the spec
reference).  The generator counts how many distinct facts of each class reach
the result on the reviewed tree and freezes that number as the floor ('min');
a class that matches nothing aborts generation (the conjunct list is wrong)."""
import json
import os
import re
import sys

sys.path.insert(0, os.path.dirname(os.path.dirname(os.path.abspath(__file__))))
from crrlverif import facts, gates
from crrlverif.ctflow import norm_name

ANY = r"[^@]*"
F = []


def fam(fn, props, gs, forbid=None, include_out=False, optional=False):
    F.append(dict(fn=fn, props=props, gates=gs, forbid=forbid or [], include_out=include_out, optional=optional))


def g(src, why, props=None):
    d = dict(src=src, why=why)
    if props:
        d["props"] = props
    return d


def len_eq(slice_re, n):
    """Length equality test in any form: `!= n`, `== n`, or an arm of `match len`."""
    return r"lencmp:%s ((Ne|Eq) %s|match (\d+,)*%s(,\d+)*)" % (slice_re, n, n)


def call(callee, args=ANY, at=r"[A-Za-z0-9_:]+"):
    return r"call:%s\(%s\)@%s#\d+" % (callee, args, at)


# ---------------- C07: Ed25519 / Ed448 verification ----------------
fam(r"crrl::ed25519::PublicKey::verify_(raw|ctx|ph)", ["C07"], [
    g(len_eq("sig", 64), "RFC 8032 5.1.7: signature length is exactly 64 bytes"),
    g(call(r"Point::decode", r"sig\[0\.\.32\]"), "R is decoded with the strict point decoder from sig[0..32]"),
    g(call(r"ModInt256::decode32", r"sig\[32\.\.64\]"), "S is decoded with the strict (non-reducing) scalar decoder from sig[32..64] (S < L)"),
    g(call(r"Point::verify_helper_vartime"), "the (cofactored) verification equation result decides acceptance"),
    g(call(r"GF255::decode32", ANY, r"Point::\w+"), "canonical y coordinate of R"),
    g(call(r"GF255::equals", ANY, r"Point::\w+"), "R on curve (square-root test)"),
    g(call(r"GF255::iszero", ANY, r"Point::\w+"), "x = 0 with sign bit 1 rejected"),
], forbid=[g(r"call:\w+::(set_)?decode\w*reduce\w*\((sig|\*sig|bswap\(sig)[^)]*\)@PublicKey::verify\w*#\d+", "signature bytes must never enter a reducing decoder")])
fam(r"crrl::ed448::PublicKey::verify_(raw|ctx|ph)", ["C07"], [
    g(len_eq("sig", 114), "RFC 8032 5.2.7: signature length is exactly 114 bytes"),
    g(call(r"Point::decode", r"sig\[0\.\.57\]"), "R strictly decoded from sig[0..57]"),
    g(call(r"Scalar::decode_ct", r"sig\[57\.\.113\]"), "S strictly decoded (S < L) from sig[57..113]"),
    g(r"elemcmp:sig\[113\] (Ne|Eq) 0", "the 114th byte (top byte of S) must be exactly zero"),
    g(call(r"Point::verify_helper_vartime"), "verification equation"),
    g(call(r"GF448::decode_ct", ANY, r"Point::\w+"), "canonical y coordinate of R"),
    g(call(r"GF448::equals", ANY, r"Point::\w+"), "R on curve"),
    g(call(r"GF448::iszero", ANY, r"Point::\w+"), "x = 0 with sign bit 1 rejected"),
], forbid=[g(r"call:\w+::(set_)?decode\w*reduce\w*\((sig|\*sig)[^)]*\)@PublicKey::verify\w*#\d+", "signature bytes must never enter a reducing decoder")])
fam(r"crrl::ed(25519|448)::PublicKey::decode", ["C07", "C06"], [
    g(call(r"Point::decode", r"buf"), "public key A is decoded with the strict point decoder"),
])

# ---------------- C06 / C20: the neutral test of the quotient groups ----------------
fam(r"crrl::ristretto255::Point::isneutral", ["C06", "C20"], [
    g(call(r"GF255::iszero", ANY, r"Point::isneutral"), "a ristretto255 element is neutral iff X = 0 or Y = 0 of its Edwards representative (four representatives: (0,1), (0,-1), (i,0), (-i,0)): both coordinates are tested"),
], forbid=[g(r"call:Point::isneutral\([^@]*\)@Point::isneutral#\d+", "the Edwards point's own isneutral() recognises only (0,1): the group neutral has other representatives")])
fam(r"crrl::decaf448::Point::isneutral", ["C06", "C20"], [
    g(call(r"GF448::iszero", ANY, r"Point::isneutral"), "a decaf448 element is neutral iff X = 0 of its Edwards representative ((0,1) or (0,-1))"),
], forbid=[g(r"call:Point::isneutral\([^@]*\)@Point::isneutral#\d+", "the Edwards point's own isneutral() recognises only (0,1)")])

fam(r"crrl::(p256|secp256k1)::Point::encode_(compressed|uncompressed)", ["C06"], [
    g(r"call:\w+::iszero\(self\.Z\)@Point::\w+#\d+", "SEC1: the point at infinity (Z = 0 in Jacobian coordinates) gets the all-zero encoding: the neutral flag is derived from Z, not from an affine coordinate (P-256 has two points with x = 0)"),
])

# ---------------- C06: group decoders (status word of set_decode) ----------------
fam(r"crrl::ed25519::Point::set_decode", ["C06"], [
    g(len_eq("buf", 32), "length 32"),
    g(call(r"GF255::decode32", ANY, r"Point::\w+"), "canonical y (RFC 8032 5.1.3 step 1)"),
    g(call(r"GF255::equals", ANY, r"Point::\w+"), "x^2 = u/v has a root: both candidate tests (step 3)"),
    g(call(r"GF255::iszero", ANY, r"Point::\w+"), "x = 0 and sign bit set is rejected (step 4)"),
])
fam(r"crrl::ed448::Point::set_decode", ["C06"], [
    g(len_eq("buf", 57), "length 57"),
    g(call(r"GF448::decode_ct", ANY, r"Point::\w+"), "canonical y (RFC 8032 5.2.3)"),
    g(call(r"GF448::equals", ANY, r"Point::\w+"), "square-root test"),
    g(call(r"GF448::iszero", ANY, r"Point::\w+"), "x = 0 and sign bit set is rejected"),
])
fam(r"crrl::(p256|secp256k1)::Point::set_decode", ["C06", "C08"], [
    g(len_eq("buf", 1), "SEC1: one-byte point at infinity"),
    g(len_eq("buf", 33), "SEC1: compressed"),
    g(len_eq("buf", 65), "SEC1: uncompressed"),
    g(call(r"\w+::decode32", r"bswap\(buf\[1\.\.33\]\)", r"Point::\w+"), "canonical x"),
    g(call(r"\w+::decode32", r"bswap\(buf\[33\.\.65\]\)", r"Point::\w+"), "canonical y (uncompressed)"),
    g(call(r"\w+::(set_)?sqrt", ANY, r"Point::\w+"), "y recovered by square root: on-curve test (compressed)"),
    g(call(r"\w+::equals", ANY, r"Point::\w+"), "curve equation test (uncompressed)"),
])
fam(r"crrl::ristretto255::Point::set_decode", ["C06"], [
    g(len_eq("buf", 32), "length 32"),
    g(call(r"GF255::decode32", r"buf", r"Point::\w+"), "canonical s (RFC 9496 4.3.1)"),
    g(call(r"Point::is_negative", ANY, r"Point::\w+"), "s non-negative and t non-negative"),
    g(call(r"Point::sqrt_ratio_m1", ANY, r"Point::\w+"), "was_square"),
    g(call(r"GF255::iszero", ANY, r"Point::\w+"), "y != 0"),
])
fam(r"crrl::decaf448::Point::set_decode", ["C06"], [
    g(len_eq("buf", 56), "length 56"),
    g(call(r"GF448::decode_ct", r"buf", r"Point::\w+"), "canonical s (RFC 9496 5.3.1)"),
    g(call(r"Point::is_negative", ANY, r"Point::\w+"), "s non-negative"),
    g(call(r"(Point::(isqrt|set_isqrt|sqrt_ratio_m1)|GF448::(set_)?sqrt\w*|GF448::legendre)", ANY, r"Point::\w+"), "was_square"),
])
fam(r"crrl::(jq255e|jq255s)::Point::set_decode", ["C06", "C09"], [
    g(len_eq("buf", 32), "length 32"),
    g(call(r"GF255::decode32", r"buf", r"Point::\w+"), "canonical u"),
    g(call(r"GF255::(set_)?sqrt\w*", ANY, ANY), "e recovered by square root: (a^2-4b)u^4 - 2au^2 + 1 must be a square"),
])
fam(r"crrl::gls254::Point::set_decode", ["C06", "C09"], [
    g(len_eq("buf", 32), "length 32"),
    g(call(r"GFb254::decode_ct", r"buf", r"Point::\w+"), "canonical w (top bits of both halves clear)"),
    g(call(r"GFb254::trace", ANY, r"Point::\w+"), "trace conditions of the (x,s) decoding"),
    g(call(r"GFb254::iszero", ANY, r"Point::\w+"), "w = 0 handling (neutral)"),
])
fam(r"crrl::(ed25519|ed448|p256|secp256k1|ristretto255|decaf448|jq255e|jq255s|gls254)::Point::decode", ["C06"], [
    g(call(r"Point::set_decode", r"buf"), "Option result is Some only under the status of set_decode"),
])

# ---------------- C08: ECDSA ----------------
fam(r"crrl::(p256|secp256k1)::PublicKey::verify_hash", ["C08"], [
    g(r"lencmp:\(len\(sig\) BitAnd 1\) (Ne|Eq) 0", "signature length is even"),
    g(r"elemcmp:sig\[i\] Ne 0", "surplus leading bytes of r are zero"),
    g(r"elemcmp:sig\[\(\(len\(sig\) Shr 1\) Add i\)\] Ne 0", "surplus leading bytes of s are zero"),
    g(call(r"\w+::decode32", r"bswap\(local:\w+\)", r"(PublicKey|p256|secp256k1)::\w+"), "r and s are decoded strictly (below n)"),
    g(call(r"\w+::iszero", r"res:decode32\(bswap\(local:\w+\)\)", r"(PublicKey|p256|secp256k1)::\w+"), "r != 0 and s != 0"),
    g(call(r"\w+::equals", ANY + r"res:decode_reduce\(bswap" + ANY, r"(PublicKey|p256|secp256k1)::\w+"), "x(R), reduced mod n through decode_reduce, is compared with r"),
])
fam(r"crrl::(p256|secp256k1)::PrivateKey::decode", ["C08"], [
    g(len_eq("buf", 32), "private key length 32"),
    g(call(r"\w+::decode32", r"bswap\(buf\)"), "strict decoding: below n"),
    g(call(r"\w+::iszero", r"res:decode32\(bswap\(buf\)\)"), "non-zero"),
])
fam(r"crrl::(p256|secp256k1)::PublicKey::decode", ["C08", "C06"], [
    g(call(r"Point::decode", r"buf"), "strict point decoding"),
    g(call(r"Point::isneutral", ANY, r"(PublicKey|p256|secp256k1|jq255e|jq255s|gls254)::\w+"), "the point at infinity is not a valid public key"),
])

# ---------------- C09: jq255e / jq255s / gls254 ----------------
fam(r"crrl::(jq255e|jq255s|gls254)::PublicKey::verify", ["C09"], [
    g(len_eq("sig", 48), "signature length is exactly 48 bytes"),
    g(call(r"\w+::decode32", r"sig\[16\.\.48\]", r"(PublicKey|jq255e|jq255s|gls254|LMS\w+)::\w+"), "s is a canonical scalar"),
    g(call(r"slice_eq", r"(local:\w+,sig\[0\.\.16\]|sig\[0\.\.16\],local:\w+)", r"(PublicKey|jq255e|jq255s|gls254|LMS\w+)::\w+"), "recomputed challenge equals c"),
])
fam(r"crrl::(jq255e|jq255s|gls254)::PrivateKey::ECDH", ["C09"], [
    dict(src=call(r"Point::set_decode", r"peer_pk", r"(PrivateKey|jq255e|jq255s|gls254)::\w+"), why="the returned KEY (not only the status) is switched on the decoding status", field=0),
    dict(src=call(r"Point::isneutral", ANY, r"(PrivateKey|jq255e|jq255s|gls254)::\w+"), why="the returned KEY is switched to the secret-derived substitute for a neutral peer key too", field=0),
    dict(src=call(r"Point::set_decode", r"peer_pk", r"(PrivateKey|jq255e|jq255s|gls254)::\w+"), why="status word depends on decoding", field=1),
    dict(src=call(r"Point::isneutral", ANY, r"(PrivateKey|jq255e|jq255s|gls254)::\w+"), why="status word depends on the neutral test", field=1),
    g(call(r"Point::set_decode", r"peer_pk", r"(PrivateKey|jq255e|jq255s|gls254)::\w+"), "peer key decoding status"),
    g(call(r"Point::isneutral", ANY, r"(PrivateKey|jq255e|jq255s|gls254)::\w+"), "neutral peer key is a failure"),
])
fam(r"crrl::(jq255e|jq255s|gls254)::PublicKey::decode", ["C09", "C06"], [
    g(call(r"Point::decode", r"buf"), "strict point decoding"),
    g(call(r"Point::isneutral", ANY, r"(PublicKey|p256|secp256k1|jq255e|jq255s|gls254)::\w+"), "neutral is not a valid public key"),
])
fam(r"crrl::(jq255e|jq255s|gls254)::PrivateKey::decode", ["C09"], [
    g(call(r"\w+::decode32", r"buf"), "strict scalar decoding"),
    g(call(r"\w+::iszero", ANY, r"(PrivateKey|jq255e|jq255s|gls254)::\w+"), "zero is not a valid private key"),
])

# ---------------- C05: field / scalar codecs ----------------
fam(r"crrl::backend::(\w+::)+(GF255|GF448|GFsecp256k1|ModInt256|ModInt256ct|GFb127)::set_decode_ct|crrl::ed448::scalarmod::Scalar::set_decode_ct", ["C05"], [
    g(len_eq("buf", r"(16|32|56|sym:\w+)"), "wrong length takes the failure path"),
])
fam(r"crrl::backend::(\w+::)+(GF255|GF448|GFsecp256k1|ModInt256|ModInt256ct|GFb127|GFb254)::decode|crrl::ed448::scalarmod::Scalar::decode", ["C05"], [
    g(call(r"\w+::(set_)?decode(32|_ct)", r"buf"), "Option result is Some only under the status of the strict decoder"),
])
fam(r"crrl::backend::(\w+::)+(GF255|GF448|GFsecp256k1|GFb127|ModInt256|ModInt256ct)::encode(32)?|crrl::ed448::scalarmod::Scalar::encode", ["C05"], [
    g(call(r"\w+::(set_normalized|normalize_limbs|set_montyred)"), "bytes are produced from the normalised (fully reduced / out-of-Montgomery) representation"),
])

# ---------------- C13: truncated verification ----------------
fam(r"crrl::ed25519::PublicKey::verify_trunc_(raw|ctx|ph)", ["C13"], [
    g(len_eq("sig", 64), "signature length"),
    g(call(r"Point::decode", r"local:\w+\[0\.\.32\]", r"(PublicKey|ed25519)::\w+"), "R strictly decoded"),
    g(call(r"Point::equals", ANY, r"(PublicKey|ed25519)::\w+"), "Some(sig) only when the candidate point matches (full check of the reconstructed signature)"),
])
fam(r"crrl::p256::PublicKey::verify_trunc_hash", ["C13"], [
    g(len_eq("sig", 64), "signature length"),
    g(call(r"\w+::decode32", r"bswap\(local:\w+\[0\.\.32\]\)", r"(PublicKey|p256)::\w+"), "r strictly decoded (r < n)"),
    g(call(r"\w+::iszero", r"res:decode32" + ANY, r"(PublicKey|p256)::\w+"), "r != 0"),
    g(call(r"Point::equals", ANY, r"(PublicKey|p256)::\w+"), "Some(sig) only when the reconstructed point matches"),
], forbid=[g(r"call:\w+::decode_reduce\(bswap\(local:\w+\[0\.\.32\]\)\)@\w+::\w+#\d+", "r must not be reduced")])

# ---------------- C15: FROST ----------------
fam(r"crrl::frost::[a-z0-9]+::(SignatureShare|SignerPublicKey|Nonce|Commitment|Signature|GroupPrivateKey|SignerPrivateKeyShare|GroupPublicKey)::decode", ["C15"], [
    g(len_eq("buf", r"(\d+|sym:\w+)"), "exact encoded length"),
    g(call(r"\w+::(scalar_decode|point_decode)", r"buf" + ANY), "every field goes through the suite's strict decoder"),
])
fam(r"crrl::frost::[a-z0-9]+::(SignatureShare|SignerPublicKey|Nonce|Commitment|SignerPrivateKeyShare)::decode", ["C15"], [
    g(call(r"\w+::iszero", ANY, r"\w+::\w+"), "identifier must be non-zero"),
])
fam(r"crrl::frost::[a-z0-9]+::Commitment::decode_list", ["C15"], [
    g(r"lencmp:\(len\(buf\) Rem \d+\) (Ne|Eq) 0", "no trailing garbage"),
    g(call(r"Commitment::decode", ANY, r"(Commitment|\w+)::\w+"), "each element strictly decoded"),
    g(call(r"\w+::scalar_cmp_vartime", ANY, r"(Commitment|\w+)::\w+"), "identifiers strictly increasing"),
])
fam(r"crrl::frost::[a-z0-9]+::SignerPrivateKeyShare::sign", ["C15"], [
    g(r"lencmp:commitment_list Lt 2", "at least two commitments"),
    g(call(r"\w+::scalar_cmp_vartime", ANY, r"(SignerPrivateKeyShare|\w+)::\w+"), "list sorted without duplicates"),
    g(call(r"\w+::equals", ANY, r"(SignerPrivateKeyShare|\w+)::\w+"), "own identifier is in the list and own commitment matches"),
])
fam(r"crrl::frost::[a-z0-9]+::SignerPublicKey::verify_signature_share", ["C15"], [
    g(call(r"\w+::commitment_list_is_sorted", ANY, ANY), "list sorted without duplicates"),
    g(call(r"Point::verify_helper_vartime", ANY, r"(SignerPublicKey|\w+)::\w+"), "share equation"),
    g(call(r"\w+::equals", ANY, r"(SignerPublicKey|\w+)::\w+"), "share identifier matches this signer"),
])
fam(r"crrl::frost::[a-z0-9]+::Coordinator::assemble_signature", ["C15"], [
    g(call(r"\w+::commitment_list_is_sorted", ANY, ANY), "list sorted without duplicates"),
    g(call(r"Point::verify_helper_vartime", ANY, r"(Coordinator|\w+)::\w+"), "aggregate signature verified before being returned"),
    g(call(r"Point::verify_helper_vartime", ANY, r"(SignerPublicKey|\w+)::\w+"), "every share verified"),
])
fam(r"crrl::frost::[a-z0-9]+::GroupPublicKey::verify", ["C15"], [
    g(call(r"Point::verify_helper_vartime", ANY, r"(GroupPublicKey|\w+)::\w+"), "signature equation"),
])
fam(r"crrl::frost::[a-z0-9]+::SignerPrivateKeyShare::verify_split", ["C15"], [
    g(call(r"Point::equals", ANY, ANY), "share consistent with the dealer's commitment"),
])

fam(r"crrl::frost::ed448::scalar_decode", ["C15"], [
    g(len_eq("buf", 57), "draft-irtf-cfrg-frost: Ed448 scalars are encoded over 57 bytes"),
    g(r"elemcmp:buf\[56\] (Ne|Eq) 0", "the 57th byte must be exactly zero (compared unmasked)"),
    g(call(r"Scalar::decode", r"buf\[0\.\.56\]"), "the first 56 bytes go through the strict scalar decoder"),
])

# ---------------- C16: LMS verify ----------------
fam(r"crrl::lms::[A-Za-z0-9_]+::PublicKey::verify", ["C16"], [
    g(len_eq("sig", r"\d+"), "exact signature size"),
    g(r"elemcmp:be\(sig\[0\.\.4\]\) Lt {pow2:h}", "leaf index q < 2^h, with 2^h taken from the parameter set's const h"),
    g(r"elemcmp:be\(sig\[4\.\.8\]\) (Ne|Eq) {const:ots_type}", "LM-OTS type code (first word of the one-time signature)"),
    g(r"elemcmp:be\(sig\[\d+\.\.\d+\]\) (Ne|Eq) {const:key_type}", "LMS type code"),
    g(call(r"slice_eq", ANY, r"(PublicKey|jq255e|jq255s|gls254|LMS\w+)::\w+"), "recomputed root equals the public key root"),
])


CALL_ARGS = [
    dict(fn=r"crrl::ed25519::(PrivateKey::sign|PublicKey::verify|PublicKey::verify_trunc)_raw", callee=r"crrl::ed25519::\w+::\w+_inner", params={"dom": 0, "phflag": 0},
         props=["C07", "C13"], why="RFC 8032 5.1: pure Ed25519 uses no dom2 prefix"),
    dict(fn=r"crrl::ed25519::(PrivateKey::sign|PublicKey::verify|PublicKey::verify_trunc)_ctx", callee=r"crrl::ed25519::\w+::\w+_inner", params={"dom": 1, "phflag": 0},
         props=["C07", "C13"], why="RFC 8032 5.1: Ed25519ctx always uses dom2(0, ctx), also for an empty context"),
    dict(fn=r"crrl::ed25519::(PrivateKey::sign|PublicKey::verify|PublicKey::verify_trunc)_ph", callee=r"crrl::ed25519::\w+::\w+_inner", params={"dom": 1, "phflag": 1},
         props=["C07", "C13"], why="RFC 8032 5.1: Ed25519ph uses dom2(1, ctx)"),
    dict(fn=r"crrl::ed448::(PrivateKey::sign|PublicKey::verify)_(raw|ctx)", callee=r"crrl::ed448::\w+::\w+_inner", params={"phflag": 0},
         props=["C07"], why="RFC 8032 5.2: Ed448 uses dom4(0, ctx)"),
    dict(fn=r"crrl::ed448::(PrivateKey::sign|PublicKey::verify)_ph", callee=r"crrl::ed448::\w+::\w+_inner", params={"phflag": 1},
         props=["C07"], why="RFC 8032 5.2: Ed448ph uses dom4(1, ctx)"),
]


FAILMASK = [
    dict(fn=r"crrl::backend::(\w+::)+(GF255|GF448|GFsecp256k1|ModInt256|ModInt256ct|GFb127|GFb254)::(set_decode_ct|set_decode32|set_sqrt)|crrl::ed448::scalarmod::Scalar::(set_decode_ct|set_sqrt)",
         props=["C05", "C18"],
         why="documented: on failure the element is set to zero and 0 is returned -- so every data-dependent limb of the output must depend on every check fact that the returned status depends on"),
    dict(fn=r"crrl::(ed25519|ed448|p256|secp256k1|jq255e|jq255s|ristretto255|decaf448)::Point::set_decode",
         props=["C06"],
         why="documented: on failure the point is set to the neutral -- every data-dependent coordinate must depend on every check fact of the status (gls254 is excluded: its status also covers the w = 0 encoding of the neutral, which the formulas map to the neutral without a mask)"),
]

MASKBYTES = [
    dict(fn=r"crrl::(jq255e|jq255s|gls254)::PrivateKey::ECDH", props=["C09"], status_field=1,
         facts=r"call:Point::(set_decode|isneutral)\(.*",
         why="on any failure (undecodable OR neutral peer key) the shared bytes are replaced by the secret-derived alternative: the mask must see the whole status"),
]

INDEPENDENT = [
    dict(fn=r"crrl::(ed25519|ed448|p256|secp256k1|jq255e|jq255s|gls254|ristretto255|decaf448)::Point::set_mulgen", param=1, props=["C04"],
         why="set_mulgen(n) computes n*G: its result must not depend on the previous value of self (the first table lookup overwrites, later ones accumulate)"),
    dict(fn=r"crrl::(ed25519|ed448|p256|secp256k1|jq255e|jq255s|gls254|ristretto255|decaf448)::Point::set_decode", param=1, props=["C06"],
         why="the decoded point must be a function of the input bytes only"),
]


NONCE_INPUT = [
    dict(fn=r"crrl::(p256|secp256k1)::PrivateKey::sign_hash", param="hv", props=["C08"],
         why="RFC 6979 section 3.2: the PRF input is bits2octets(h) = int2octets(bits2int(h) mod q), not the raw hash bytes"),
]

TILING = [
    dict(fn=r"crrl::frost::[a-z0-9]+::\w+::decode", props=["C15"],
         why="FROST wire formats are concatenations of fixed-size fields: every byte of the input belongs to exactly one field"),
]


REJECT_CONFIGS = ["x64", "x64-w32", "x64-m51"]


def rejecting(gt, fam_, env):
    """True when, in every reference configuration, the matching comparisons are branched on and reject (G12)."""
    seen = False
    for (f, eng) in env:
        for fn in f.fns.values():
            if not re.fullmatch(fam_["fn"], norm_name(fn["name"])):
                continue
            labmap = {}
            have = gates.gate_strings(eng.summary(fn), fam_["include_out"], eng.policy, fn, labmap=labmap)
            if "field" in gt:
                continue
            v = gates.reject_verdicts(f, eng, fn, have, labmap, gates.subst_consts(f, fn, gt["src"]), {})
            if not v or all(x[0] is None for x in v):
                return False
            if not any(x[0] for x in v):
                return False
            seen = True
    return seen


def positional(pat, fns):
    """gate patterns are written with the parameter names of the reviewed tree; facts name parameters by position"""
    mp = {}
    for fn in fns:
        for i in range(1, fn["argc"] + 1):
            nm = fn["locals"][i][1]
            if nm and (len(nm) >= 2 or nm in ()):
                if nm in mp and mp[nm] != i:
                    mp[nm] = None        # ambiguous across the family: leave as is (reported by ZERO if it matters)
                elif nm not in mp:
                    mp[nm] = i
    for nm in sorted(mp, key=len, reverse=True):
        if mp[nm] is None:
            continue
        pat = re.sub(r"(?<![A-Za-z0-9_.])(?<!::)(?<!local:)(?<!res:)(?<!call:)%s(?![A-Za-z0-9_])" % re.escape(nm), "p%d" % mp[nm], pat)
    return pat


def main():
    f = facts.load("x64")
    eng = gates.GateEngine(f, gates.GatePolicy(f))
    env = [(f, eng)]
    for c in REJECT_CONFIGS[1:]:
        fc = facts.load(c)
        env.append((fc, gates.GateEngine(fc, gates.GatePolicy(fc))))
    out = []
    problems = 0
    for fam_ in F:
        matched = [fn for fn in f.fns.values() if re.fullmatch(fam_["fn"], norm_name(fn["name"]))]
        if not matched and not fam_["optional"]:
            print("NO MATCH for", fam_["fn"])
            problems += 1
            continue
        fam_ = dict(fam_)
        fam_["gates"] = [dict(gt, src=positional(gt["src"], matched)) for gt in fam_["gates"]]
        fam_["forbid"] = [dict(fb, src=positional(fb["src"], matched)) for fb in fam_["forbid"]]
        gl = []
        for gt in fam_["gates"]:
            mn = None
            for fn in matched:
                have = gates.gate_strings(eng.summary(fn), fam_["include_out"], eng.policy, fn)
                have = gates.field_strings(eng.summary(fn), gt["field"], eng.policy, fn) if "field" in gt else have
                n = len([h for h in have if re.fullmatch(gates.subst_consts(f, fn, gt["src"]), h)])
                mn = n if mn is None else min(mn, n)
            if not mn:
                print("ZERO:", fam_["fn"], gt["src"], [fn["name"] for fn in matched if not any(
                    re.fullmatch(gt["src"], h) for h in gates.gate_strings(eng.summary(fn), fam_["include_out"], eng.policy, fn))][:3])
                problems += 1
                continue
            d = dict(gt)
            # floors are counted only for call-site classes pinned to one enclosing function (their number does
            # not depend on the backend); every other class just has to be present
            pinned = gt["src"].startswith("call:") and not gt["src"].endswith("@" + r"[A-Za-z0-9_:]+" + r"#\d+") and not gt["src"].endswith("@" + ANY + r"#\d+")
            d["min"] = mn if pinned else 1
            if not gt["src"].startswith("call:") and rejecting(gt, fam_, env):
                d["rejects"] = True
            gl.append(d)
        for fb in fam_["forbid"]:
            for fn in matched:
                have = gates.gate_strings(eng.summary(fn), fam_["include_out"], eng.policy, fn)
                if any(re.fullmatch(fb["src"], h) for h in have):
                    print("FORBID HIT on today's tree:", fn["name"], fb["src"])
                    problems += 1
        out.append(dict(fn=fam_["fn"], props=fam_["props"], gates=gl, forbid=fam_["forbid"],
                        include_out=fam_["include_out"], optional=fam_["optional"], matched_today=len(matched)))
    # positions of the named callee parameters (G10) and of the hash parameter (G13) on the reviewed tree
    for ent in CALL_ARGS:
        per = {}
        for fn in f.fns.values():
            nn = norm_name(fn["name"])
            if re.fullmatch(ent["callee"], nn):
                d = {}
                for pn, want in ent["params"].items():
                    for i in range(1, fn["argc"] + 1):
                        if fn["locals"][i][1] == pn:
                            d[str(i)] = want
                if len(d) == len(ent["params"]):
                    d["argc"] = fn["argc"]
                    per[nn] = d
        if not per:
            print("CALL_ARGS: no callee with the named parameters for", ent["callee"])
            problems += 1
        ent["params_idx"] = per
    for ent in NONCE_INPUT:
        pos = set()
        for fn in f.fns.values():
            if re.fullmatch(ent["fn"], norm_name(fn["name"])):
                pos |= set(i for i in range(1, fn["argc"] + 1) if fn["locals"][i][1] == ent["param"])
        if len(pos) != 1:
            print("NONCE_INPUT: position of", ent["param"], "not unique", pos)
            problems += 1
        else:
            ent["param_idx"] = list(pos)[0]
    tab = dict(_comment="G3 required gates / G1 forbidden flows. Generated by tools/gen_gates.py from the conjunct classes written "
               "there (spec references in 'why'); 'min' = number of distinct matching check facts reaching the result on the "
               "reviewed tree.", functions=out, call_args=CALL_ARGS, independent=INDEPENDENT, failmask=FAILMASK, maskbytes=MASKBYTES, tiling=TILING, nonce_input=NONCE_INPUT)
    json.dump(tab, open(os.path.join(os.path.dirname(os.path.dirname(os.path.abspath(__file__))), "tables", "gates.json"), "w"), indent=1)
    print("families", len(out), "gates", sum(len(x["gates"]) for x in out), "rejecting", sum(1 for x in out for y in x["gates"] if y.get("rejects")), "problems", problems)


if __name__ == "__main__":
    main()
