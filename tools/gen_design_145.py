#!/usr/bin/env python3
"""Rewrites section 14.5 of DESIGN.md (between the SEED-TABLE markers) from seeded/RESULTS.json."""
import collections
import json
import os
import re

V = os.path.dirname(os.path.dirname(os.path.abspath(__file__)))
MISS = {
    "C04": "carry of the `+1` lost in `abs` of the half-scalars (two authors), neutral fix-up of Y dropped in `set_xdouble`: numeric",
    "C05": "lost carry / rare second fold in `set_decode_reduce`, polarity of the canonicity borrow, zero-padding dropped for moduli shorter than 248 bits (a generic parameter no in-tree type instantiates)",
    "C06": "`map_to_curve` algebra (two), carry-coupled zero test in the m51 backend, canonicity comparison in the 32-bit `ModInt256`",
    "C07": "`S < L` / `y < p` off by one inside the borrow chain (two), an *added* low-order rejection",
    "C08": "a carry dropped in the Montgomery multiplication for large moduli",
    "C09": "borrow added instead of subtracted in the key ordering (two), last guard of a vartime window chain",
    "C10": "wNAF recoding carries (three), fallback taken on the wrong value, index slip in a shifted subtraction",
    "C11": "Lagrange bit lengths and termination (two), exactness of the split (three)",
    "C13": "search bound `len-1`, flag of the wrong point, mask on the wrong byte, `>` for `>=`, batch-inversion fix-up",
    "C15": "ordering by encoded bytes, dropped bit in the m51 decoder, `==` for `>=` threshold, keys derived from the VSS commitment",
    "C17": "SHAKE `extract` / SHA-3 `update` fast paths (alignment arithmetic, four), keyed BLAKE2s reset for short outputs, AVX2 vs SSE2 compression",
    "C18": "numeric thresholds in the 51-bit backend",
    "C19": "-",
    "C20": "mask built from `j & 2`, stale pre-fold variable in the m51 `iszero`",
}
RULENAME = {"CT1": "ctflow sinks", "T1": "table re-derivation", "G6-S2": "lmsstate S2", "G6-S4": "lmsstate S4"}


def main():
    r = json.load(open(os.path.join(V, "seeded", "RESULTS.json")))
    by = collections.OrderedDict()
    for k in sorted(r, key=lambda x: (x.split("-")[0], int(x.split("-")[1]))):
        p = k.split("-")[0]
        by.setdefault(p, []).append((k, r[k]))
    tot = sum(len(v) for v in by.values())
    det = sum(1 for v in by.values() for _k, x in v if x.get("rule"))
    rows = []
    for p, v in by.items():
        d = [x for _k, x in v if x.get("rule")]
        rules = collections.Counter(RULENAME.get(x["rule"], x["rule"]) for x in d)
        rs = ", ".join("%s%s" % (a, " x%d" % b if b > 1 else "") for a, b in rules.most_common())
        miss = "-" if len(d) == len(v) else MISS.get(p, "numeric")
        rows.append("| %s | %d/%d | %s | %s |" % (p, len(d), len(v), rs or "-", miss))
    table = "\n".join(["| property | detected | first rule that fired (count) | what the misses are |", "|---|---|---|---|"] + rows)
    text = open(os.path.join(V, "DESIGN.md")).read()
    a, b = "<!-- SEED-TABLE-BEGIN -->", "<!-- SEED-TABLE-END -->"
    i, j = text.index(a), text.index(b)
    body = "%s\n**Detected: %d of %d** (first pass of the build round: 22 of 47; after round 3: 71 of 111).\n\n%s\n%s" % (a, det, tot, table, "")
    text = text[:i] + body + text[j:]
    text = re.sub(r"### 14\.5 Seeded defects \(\d+ confirmed", "### 14.5 Seeded defects (%d confirmed" % tot, text)
    open(os.path.join(V, "DESIGN.md"), "w").write(text)
    print("detected %d of %d" % (det, tot))


if __name__ == "__main__":
    main()
