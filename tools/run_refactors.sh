#!/bin/bash
# Applies each behaviour-preserving refactoring to a scratch copy of /repo and runs ALL quick checks: any VIOLATION is a false alarm.
cd /verif
DIR=${1:-/verif/refactors}
for d in $DIR/*/; do
  id=$(basename $d)
  S=$(mktemp -d /tmp/refrun.XXXXXX)
  rsync -a --exclude target --exclude .git /repo/ $S/
  if ! (cd $S && patch -p1 -s --no-backup-if-mismatch < $d/patch.diff) >/dev/null 2>&1; then echo "$id PATCH-FAILED"; rm -rf $S; continue; fi
  res=""
  for P in C02 C04 C05 C06 C07 C08 C09 C10 C11 C13 C15 C16 C17 C18 C19 C20; do
    out=$(CRRL_REPO=$S ./check $P 2>&1)
    nv=$(echo "$out" | grep -c "^VIOLATION")
    if [ "$nv" != "0" ]; then res="$res $P:$nv"; echo "$out" | grep -A3 "^VIOLATION" | grep -v "^--\|^VIOLATION" | cut -c1-300 | head -6 | sed "s/^/    [$id $P] /"; fi
    if echo "$out" | grep -q "Traceback"; then res="$res $P:CRASH"; fi
  done
  echo "$id ->${res:- clean}"
  rm -rf $S
done
