#!/bin/bash
# Applies each behaviour-preserving refactoring to a scratch copy of /repo and runs ALL quick checks:
# any VIOLATION is a false alarm.  Usage: tools/run_refactors.sh [dir] ; PAR=<n> refactors in parallel.
V=$(cd "$(dirname "$0")/.." && pwd); cd $V
(cd $V/mirfacts && cargo build --release --offline -q) 2>/dev/null
DIR=${1:-$V/refactors}
one() {
  d=$1; id=$(basename $d)
  S=$(mktemp -d /tmp/refrun.XXXXXX)
  rsync -a --exclude target --exclude .git /repo/ $S/
  if ! (cd $S && patch -p1 -s --no-backup-if-mismatch < $d/patch.diff) >/dev/null 2>&1; then echo "$id PATCH-FAILED"; rm -rf $S; return; fi
  res=""; detail=""
  for P in C02 C04 C05 C06 C07 C08 C09 C10 C11 C13 C15 C16 C17 C18 C19 C20; do
    out=$(CRRL_REPO=$S CRRL_EVIDENCE_DIR=$S/evidence CRRL_CONFIGS=${CONFIGS:-} ./check $P 2>&1)
    nv=$(echo "$out" | grep -c "^VIOLATION")
    if [ "$nv" != "0" ]; then res="$res $P:$nv"; detail="$detail$(echo "$out" | grep -A3 "^VIOLATION" | grep -v "^--\|^VIOLATION\|rule=\|path:" | cut -c1-300 | head -3 | sed "s/^/    [$id $P] /")
"; fi
    if echo "$out" | grep -q "Traceback"; then res="$res $P:CRASH"; fi
  done
  echo "$detail$id ->${res:- clean}"
  rm -rf $S
}
export -f one
ls -d $DIR/*/ | xargs -P ${PAR:-4} -I{} bash -c 'one {}'
