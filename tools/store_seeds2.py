#!/usr/bin/env python3
"""store_seeds2.py <dir e.g. s2c07> : copy confirmed round-2 seeds from /tmp/seed_out/<dir>/<k> to /verif/seeded/C<xx>-<3+k>."""
import json, os, re, shutil, subprocess, sys
P = sys.argv[1]
OUT = "/tmp/seed_out/" + P
log = open("/tmp/seed_out/verify_%s.log" % P).read()
head = subprocess.check_output(["git", "-C", "/repo", "rev-parse", "--short", "HEAD"], text=True).strip()
for line in log.splitlines():
    m = re.match(r"%s/(\d+) (\S+) (.*)" % P, line)
    if not m:
        continue
    k, status, rest = m.group(1), m.group(2), m.group(3)
    if status != "CONFIRMED":
        print("skip", P, k, status)
        continue
    S = "%s/%s" % (OUT, k)
    meta = json.load(open(S + "/meta.json"))
    prop = meta["property"]
    import glob
    pd = open(S + "/patch.diff").read()
    if any(open(x).read() == pd for x in glob.glob("/verif/seeded/%s-*/patch.diff" % prop)):
        print("already stored", P, k)
        continue
    nxt = 1
    while os.path.exists("/verif/seeded/%s-%d" % (prop, nxt)):
        nxt += 1
    D = "/verif/seeded/%s-%d" % (prop, nxt)
    os.makedirs(D, exist_ok=True)
    shutil.copy(S + "/patch.diff", D)
    for f in ("demo_test.rs", "demo_test.patch"):
        if os.path.exists(S + "/" + f):
            shutil.copy(S + "/" + f, D)
    if os.path.isdir(S + "/demo"):
        shutil.copytree(S + "/demo", D + "/demo", dirs_exist_ok=True, ignore=shutil.ignore_patterns("target", "Cargo.lock"))
    meta["round"] = int(P[1]) if P[1].isdigit() else 2
    meta["confirmed_by_me"] = dict(procedure="tools/verify_seed2.py %s in scratch worktree /tmp/wt/%s (repo HEAD %s)" % (P, P, head), result=rest)
    json.dump(meta, open(D + "/meta.json", "w"), indent=1)
    print("stored", D)
