#!/usr/bin/env python3
"""verify_seed2.py <dir e.g. s2c07> : independent confirmation of each seeded change /tmp/seed_out/<dir>/<k>:
 (a) the pinned suite (`cargo test --offline`) passes with the patch, (b) the demonstration fails with the patch,
 (c) the demonstration passes without it.  Works in the scratch worktree /tmp/wt/<dir>; leaves it clean.
Demonstration forms: demo/ (standalone cargo project depending on the worktree), demo_test.patch (git apply),
demo_test.rs (appended to the source file named in meta.json)."""
import json
import os
import re
import subprocess
import sys

P = sys.argv[1]
WT = "/tmp/wt/" + P
OUT = "/tmp/seed_out/" + P
ENV = dict(os.environ, CARGO_NET_OFFLINE="true")


def sh(cmd, cwd=WT, env=None, log=None):
    p = subprocess.run(cmd, shell=True, cwd=cwd, env=env or ENV, stdout=subprocess.PIPE, stderr=subprocess.STDOUT, text=True)
    if log:
        open(log, "w").write(p.stdout)
    return p.returncode, p.stdout


def clean():
    sh("git checkout -q -- . && git clean -fdq -e target -e Cargo.lock")


def demo_settings(S, meta):
    cmds = meta.get("commands_run", [])
    if isinstance(cmds, str):
        cmds = [cmds]
    text = " ".join(str(meta.get(k, "")) for k in ("demo", "config", "configuration", "needs_to_manifest")) + " " + " ".join(cmds)
    democmds = [c for c in cmds if "demo" in c or "--lib" in c]
    feats = None
    rf = None
    for c in democmds:
        m = re.search(r"--features[ =]([\w,]+)", c)
        if m:
            feats = m.group(1)
        m = re.search(r"RUSTFLAGS=['\"]([^'\"]+)['\"]", c)
        if m:
            rf = m.group(1)
    if feats is None:
        m = re.search(r"cargo test[^#\n]*--features[ =]([\w,]+)[^#\n]*--lib", str(meta.get("demo", "")))
        if m:
            feats = m.group(1)
    tgt = None
    m = re.search(r"(?:end of|appended to|append(?:ed)? (?:the whole block )?(?:at the end of|to)|>>)\s*`?(src/[\w/]+\.rs)", text)
    if m:
        tgt = m.group(1)
    if not tgt:
        tgt = meta.get("files", ["src/lib.rs"])[0]
    return feats, rf, tgt


def rundemo(S, meta, log):
    feats, rf, tgt = demo_settings(S, meta)
    env = dict(ENV)
    if rf:
        env["RUSTFLAGS"] = rf
    if os.path.isdir(S + "/demo"):
        env["CARGO_TARGET_DIR"] = OUT + "/target_demo"
        if not os.path.exists(S + "/demo/Cargo.lock") and os.path.exists(WT + "/Cargo.lock"):
            sh("cp %s/Cargo.lock %s/demo/" % (WT, S))
        rc, _ = sh("cargo run --offline", cwd=S + "/demo", env=env, log=log)
        return rc, "demo/ rf=%s" % rf
    names = re.findall(r"#\[test\]\s*(?:#\[[^\]]*\]\s*)*fn\s+(\w+)", open(S + "/demo_test.rs").read()) if os.path.exists(S + "/demo_test.rs") else []
    if os.path.exists(S + "/demo_test.patch"):
        rc, o = sh("git apply %s/demo_test.patch" % S)
        if rc:
            return -1, "demo_test.patch does not apply: " + o[:200]
        names = names or re.findall(r"\+\s*fn\s+(\w+)", open(S + "/demo_test.patch").read())
    else:
        itest = re.search(r"tests/(\w+)\.rs", " ".join(map(str, meta.get("commands_run", []))) + str(meta.get("demo", "")))
        if itest:
            os.makedirs(WT + "/tests", exist_ok=True)
            sh("cp %s/demo_test.rs %s/tests/%s.rs" % (S, WT, itest.group(1)))
            rc, _ = sh("cargo test --offline --release %s --test %s" % ("--features " + feats if feats else "", itest.group(1)), env=env, log=log)
            sh("rm -rf %s/tests" % WT)
            return rc, "integration test feats=%s" % feats
        sh("cat %s/demo_test.rs >> %s/%s" % (S, WT, tgt))
    if rf:
        env["CARGO_TARGET_DIR"] = WT + "/target/rf"
    rc, o = sh("cargo test --offline --lib %s -- %s" % ("--features " + feats if feats else "", " ".join(names)), env=env, log=log)
    ran = re.findall(r"running (\d+) tests?", o)
    if rc == 0 and (not ran or all(int(x) == 0 for x in ran)):
        return -2, "no demo test ran (names=%s tgt=%s)" % (names, tgt)
    return rc, "in-crate tests %s in %s feats=%s rf=%s" % (names, tgt, feats, rf)


for k in sorted(os.listdir(OUT)):
    S = OUT + "/" + k
    if not os.path.exists(S + "/patch.diff"):
        continue
    meta = json.load(open(S + "/meta.json"))
    clean()
    rc, o = sh("git apply %s/patch.diff" % S)
    if rc:
        print("%s/%s APPLY-FAIL %s" % (P, k, o[:200]))
        continue
    rc_suite, o = sh("cargo test --offline", log=S + "/verify_suite.log")
    npass = re.findall(r"test result: ok\. (\d+) passed", o)
    rc_with, how = rundemo(S, meta, S + "/verify_demo_with.log")
    clean()
    rc_without, _ = rundemo(S, meta, S + "/verify_demo_without.log")
    clean()
    ok = rc_suite == 0 and rc_with not in (0, -1, -2) and rc_without == 0
    print("%s/%s %s suite_rc=%s passed=%s demo_with=%s demo_without=%s [%s] prop=%s" % (
        P, k, "CONFIRMED" if ok else "NOT-CONFIRMED", rc_suite, npass[:1], rc_with, rc_without, how, meta.get("property")))
    sys.stdout.flush()
