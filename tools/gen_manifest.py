#!/usr/bin/env python3
"""Regenerates /verif/MANIFEST.json from the table below (single source of truth)."""
import json
import os

VERIF = os.path.dirname(os.path.dirname(os.path.abspath(__file__)))

NA = {
    "C01": "exact modular arithmetic over all 2^256/2^448 limb patterns is a statement about runtime values; no sound static argument in reach (interval analysis proves none of the interesting carries/folds)",
    "C03": "group-law correctness/completeness is an algebraic identity over field values; nothing about it is visible in the shape of the code",
    "C12": "division, square root and Legendre correctness for all inputs is numeric (its output-shape facts: statuses are masks, zero on failure, are decided under C19/C05/C20)",
    "C14": "RFC 7748 functional equality over all input pairs is numeric (ladder cswap control words are covered by the C20 mask rule)",
}

CLAIMED = {
    "C02": dict(
        engine="ctflow", technique="MIR-level interprocedural information-flow (taint) analysis with a reviewed secrecy typing",
        category="other", design_ref="DESIGN.md section 3",
        text="Static information-flow analysis over type-checked MIR (all externally reachable functions, every build configuration in the thorough tier): no branch discriminant, memory index, slice range, division operand or value-reading std call is data-flow reachable from a secret in any function not documented variable-time. Decides the MIR-level clause, a necessary condition of C02; the machine-code clause is out of static reach and is stated as not decided.",
        note="Assumes rustc MIR construction is faithful (A1), the std model (A2), constant-time integer ALU ops (A3) and the reviewed secrecy tables (A4). Does not cover LLVM's later transformations."),
    "C04": dict(
        engine="consttab", technique="const-evaluated table bytes (rustc) compared entry-by-entry with an independent big-integer reference",
        category="exploration", design_ref="DESIGN.md section 7.1",
        text="Exhaustive enumeration of a finite set of source constants: every entry of all 31 precomputed generator tables (488 points) and the curve/endomorphism constants, as const-evaluated by the compiler on the current tree, equals its mathematical definition. Decides only the table sentence of C04; n*P for all n (recoding, windows, splitting) is numeric and not decided.",
        note="Trusts rustc const evaluation and the Python reference arithmetic (textbook affine formulas from the curve equations in the module headers)."),
    "C13": dict(
        engine="consttab+gates", technique="const-evaluated UX_COMP (16385 words) vs definition; dominance of every Some(..) return by the full-equation check",
        category="exploration", design_ref="DESIGN.md sections 7.1 and 6",
        text="Exhaustive check of the 16385-entry UX_COMP table (values, ascending order, distinct 48-bit prefixes) and of B227 against their definitions. Decides the table clause; completeness of the baby-step/giant-step search is numeric and not decided.",
        note="Trusts rustc const evaluation and the Python reference arithmetic."),
}


def main():
    props = [json.loads(l) for l in open(os.path.join(VERIF, "properties.jsonl"))]
    checks = []
    na = []
    for p in props:
        pid = p["id"]
        if pid in CLAIMED:
            c = CLAIMED[pid]
            checks.append(dict(
                property_id=pid,
                quick_cmd="./check %s --tier quick" % pid,
                thorough_cmd="./check %s --tier thorough" % pid,
                evidence_file="evidence/%s.json" % pid,
                replay_cmd_template="./check %s --explain {path}" % pid,
                engine=c["engine"],
                level_claimed=dict(category=c["category"], text=c["text"], design_ref=c["design_ref"]),
                level_note=c["note"],
                technique=c["technique"]))
        else:
            na.append(dict(property_id=pid, reason=NA.get(
                pid, "not yet claimed in this commit: the static check for the clause planned in DESIGN.md section 0 is not built yet")))
    m = dict(
        version=1,
        setup_cmd="cd /verif/mirfacts && cargo build --release --offline && cd /verif && python3 -m compileall -q crrlverif",
        hooks=dict(guard="crrl_verif",
                   enable="none needed: all facts are read through the compiler by the rustc_private driver /verif/mirfacts (RUSTC_WRAPPER under cargo +nightly check); no hook code exists in /repo",
                   baseline_off_cmd="cd /repo && cargo test --workspace --no-fail-fast --offline",
                   source_commits=[], add_only=True),
        engines=[
            dict(name="mirfacts", path="mirfacts/", serves_properties=sorted(CLAIMED), kind_free_text="rustc_private driver dumping MIR, types, layouts and const-evaluated data as JSON"),
            dict(name="consttab", path="crrlverif/consttab.py", serves_properties=["C04", "C13"], kind_free_text="constant tables vs independent reference arithmetic"),
            dict(name="taint/ctflow", path="crrlverif/taint.py", serves_properties=["C02"], kind_free_text="interprocedural label analysis over MIR"),
        ],
        checks=checks,
        not_applicable=na,
        notes="Technique family: static analysis only. Every check re-extracts facts from /repo's working tree (content-hashed cache under /verif/.cache).")
    with open(os.path.join(VERIF, "MANIFEST.json"), "w") as fh:
        json.dump(m, fh, indent=1)


if __name__ == "__main__":
    main()
