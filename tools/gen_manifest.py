#!/usr/bin/env python3
"""Regenerates /verif/MANIFEST.json from the table below (single source of truth)."""
import json
import os

VERIF = os.path.dirname(os.path.dirname(os.path.abspath(__file__)))

NA = {
    "C01": "exact modular arithmetic over all 2^256/2^448 limb patterns is a statement about runtime values; no sound static argument in reach (interval analysis proves none of the interesting carries/folds)",
    "C03": "group-law correctness/completeness is an algebraic identity over field values; nothing about it is visible in the shape of the code",
    "C12": "division, square root and Legendre correctness for all inputs is numeric (its output-shape facts: statuses are masks, zero on failure, are decided under C19/C05/C20)",
    "C14": "RFC 7748 functional equality over all input pairs is numeric (ladder cswap control words are covered by the C20 mask rule)",
}

CLAIMED = {
    "C02": dict(
        engine="ctflow", technique="MIR-level interprocedural information-flow (taint) analysis with a reviewed secrecy typing",
        category="other", design_ref="DESIGN.md section 3",
        text="Static information-flow analysis over type-checked MIR (all externally reachable functions, every build configuration in the thorough tier): no branch discriminant, memory index, slice range, division operand or value-reading std call is data-flow reachable from a secret in any function not documented variable-time. Decides the MIR-level clause, a necessary condition of C02; the machine-code clause is out of static reach and is stated as not decided.",
        note="Assumes rustc MIR construction is faithful (A1), the std model (A2), constant-time integer ALU ops (A3) and the reviewed secrecy tables (A4). Does not cover LLVM's later transformations."),
    "C04": dict(
        engine="consttab", technique="const-evaluated table bytes (rustc) compared entry-by-entry with an independent big-integer reference",
        category="exploration", design_ref="DESIGN.md section 7.1",
        text="Exhaustive enumeration of a finite set of source constants: every entry of all 31 precomputed generator tables (488 points) and the curve/endomorphism constants, as const-evaluated by the compiler on the current tree, equals its mathematical definition. Decides only the table sentence of C04; n*P for all n (recoding, windows, splitting) is numeric and not decided.",
        note="Trusts rustc const evaluation and the Python reference arithmetic (textbook affine formulas from the curve equations in the module headers)."),
    "C13": dict(
        engine="consttab+gates", technique="const-evaluated UX_COMP (16385 words) vs definition; dominance of every Some(..) return by the full-equation check",
        category="exploration", design_ref="DESIGN.md sections 7.1 and 6",
        text="Exhaustive check of the 16385-entry UX_COMP table (values, ascending order, distinct 48-bit prefixes) and of B227 against their definitions. Decides the table clause; completeness of the baby-step/giant-step search is numeric and not decided.",
        note="Trusts rustc const evaluation and the Python reference arithmetic."),
}

_GATES_NOTE = "Assumes A1 (MIR faithful), A2 (std model) and that tables/gates.json lists the conjuncts of the cited specification; decides presence and reach of each check, not the arithmetic it performs."
_TOT_NOTE = "Assumes A1, A2; tables/panic_sites.json (reviewed, documentation anchors re-checked on every run) and tables/site_inventory.json (frozen residue of index/length obligations that no rule discharges: only NEW undischarged obligations are reported)."

def _g(pid, text, cat="other", eng="gates", tech="interprocedural dependence (taint with implicit flows) of the result on specified check facts in MIR", ref="DESIGN.md section 6", note=_GATES_NOTE):
    CLAIMED[pid] = dict(engine=eng, technique=tech, category=cat, design_ref=ref, text=text, note=note)

_g("C05", "Structural clauses only: encoders serialise the normaliser's output; strict decoders fail on wrong length; Option wrappers are Some only under the strict decoder's status. Round-trip identity and the modulus comparison are numeric and not decided.")
_g("C06", "Decode-gate clause only: for the nine group decoders, the status depends on every rejection conjunct of the format's decoding rule; decode()/PublicKey::decode() are Some only under that status. Injectivity, representative-independence and the byte-to-group maps are not decided.")
_g("C07", "Gate clause only: every check conjunct of the strict RFC 8032 acceptance predicate (length, strict R, strict S from the right byte range, Ed448 trailing byte unmasked, verification equation, variant flags dom/phflag passed as the RFC's constants) reaches the boolean result; signature bytes never enter a reducing decoder. Correctness of the equation and of signing are not decided.")
_g("C08", "Gate clause only: ECDSA verify_hash depends on even length, zero padding of both halves, strict decoding and non-zero test of r and s, R not at infinity, final comparison; key decoders' range gates. Nonce derivation and the arithmetic are not decided.")
_g("C09", "Gate clause only: Schnorr verify depends on exact length 48 (equality test), canonical s from its byte range, challenge comparison; ECDH key and status both depend on decoding and on the neutral test; key decoders. Key agreement arithmetic is not decided.")
_g("C15", "Structural clauses: rejection gates of every FROST decoder, decode_list, sign, share verification and assembly, plus the reachable-panic discipline (totality rules incl. caller-establishes-precondition) over all public FROST functions. Interpolation algebra is not decided.", eng="gates+totality", tech="dependence of results on check facts + panic-site / length-obligation analysis over MIR", note=_GATES_NOTE + " " + _TOT_NOTE)
_g("C16", "State-machine and gate clauses: in sign() the single store current_leaf = q+1 dominates ots_sign and every Some return, uses the entry value, is confined to the q < 2^h edge (2^h from the parameter set), nothing is written on the exhausted path, no other function writes the counter; verify() depends on exact size, q < 2^h, both type codes, root comparison. Winternitz/Merkle correctness is not decided.", eng="gates+lmsstate", tech="dominance / who-may-write rules on MIR + dependence on check facts")
for _p, _t in (("C19", "Four clauses: explicit panics documented/impossible/reviewed (new ones reported, caller-establishes rule), index/range/copy-length/division obligations discharged by folding, intervals, loop ranges, dominating or callee-implied length guards (residue frozen, only new ones reported). Loop termination and statuses-are-masks are decided by other rules when available."),
               ("C10", "Totality clause only ('never panic'): the C19 rules over the call trees of the *_vartime combinations and verify_helper_vartime. Equality with the constant-time result is numeric: not decided."),
               ("C11", "Totality clause only ('return for every input scalar, without panicking'): the C19 rules over split_vartime / split_mu / split_theta / mul_divr_rounded / lagrange*. The split contract and termination are numeric: not decided.")):
    CLAIMED[_p] = dict(engine="totality", technique="enumeration of panic edges in MIR with interval / guard / loop-range discharge and reviewed tables", category="other", design_ref="DESIGN.md section 5", text=_t, note=_TOT_NOTE)
_g("C17", "Two structural clauses: reset() re-establishes every field new() initialises (reviewed exceptions: configuration and dead-buffer fields) for all six hash context types; every public function named *reset* or documented as automatically resetting passes through reset on every path. Digest values, padding and chunking are numeric and not decided.", eng="hashreset", tech="field-coverage of reset via write summaries; must-pass-through on the CFG", ref="DESIGN.md section 6 (G7)", note="Assumes A1, A2 and the reviewed dead-field list in crrlverif/hashreset.py.")
_g("C18", "Structural clauses: signature parity of every backend type's public API across build configurations (P1); consistent word-index / bit-offset splitting (P4); sibling functions of two backends with the same shape agree on the operands of every call (P5); masks, multiplexers, lookup scans and codec gates re-decided under each configuration (P3). Byte-identical arithmetic results are numeric and not decided.", eng="apiparity+maskdom+muxshape+gates", tech="API signature comparison and sibling-skeleton comparison across per-configuration MIR; re-run of structural rules per configuration", ref="DESIGN.md section 7.2", note="Assumes A1; tables/apiparity.json lists reviewed API exceptions. Configurations: quick = x64, w32, m51, clmul, +avx2/lzcnt; thorough adds zz32, no-std, aarch64, riscv64, i686.")
_g("C20", "Structural core: control words are masks at every call site (K1) and predicates return masks (K2) by value-set abstract interpretation; every set_cond/cswap stores exactly MUX(ctl, own, other) for every limb, composites delegate field by field, select and set_condneg have the specified shape (K3); every constant-time lookup scans its whole table and does not truncate its index (K4). That iszero/equals decide mathematical equality is numeric and not decided.", eng="maskdom+muxshape", tech="value-set/interval/lane-mask abstract interpretation; Boolean truth-table equivalence of stored limb expressions; loop/stride coverage analysis", ref="DESIGN.md section 4", note="Assumes A1, A2; tables/masks.json lists the reviewed non-status functions and mask-by-range-invariant sites.")
_K5 = (" Also K5 (limbcov): in the property's call trees no whole-value limb operation silently skips a limb (limbs read / written, returned scalars' "
       "dependence, carry-chain index slips, one call of a unanimous chain with two arguments transposed) -- a necessary condition, not the arithmetic.")
for _p in ("C04", "C05", "C06", "C07", "C08", "C09", "C10", "C11", "C13", "C15", "C18", "C20"):
    CLAIMED[_p]["text"] += _K5
for _p in ("C05", "C06", "C07", "C08", "C09", "C13", "C15", "C16"):
    CLAIMED[_p]["text"] += " G12: a required test that rejects by a branch must keep an outcome from which no success value is reachable."
CLAIMED["C05"]["text"] += " G8/K5d: on failure every leaf of the decoded value depends on the status; every backend decoder overwrites its whole receiver on every path."
CLAIMED["C19"]["text"] += " R19c: every loop is iterator-bounded, a counter loop stepping to its bound, or a reviewed (numeric / probabilistic, undecided) loop."
for _p in ("C08", "C13"):
    CLAIMED[_p]["text"] += " G15: sign_hash, verify_hash and verify_trunc_hash read the hash argument from its first byte and place it right-aligned in the scalar buffer (byte placement of bits2int; the reduction itself is not decided)."
for _p in ("C15", "C19"):
    CLAIMED[_p]["text"] += " G14: every test on the result of the FROST identifier comparator treats the outcome Equal on its own or rejects it (lists strictly increasing; the predicate establishing the interpolation assert's precondition is strict)."
CLAIMED["C10"]["text"] += " R10z: in the ten vartime combination routines the result is assigned as a whole on every path, for every value of the routine's flags."
CLAIMED["C18"]["text"] += " P6: siblings calling the same own-type methods call each equally often."
CLAIMED["C04"]["text"] += " G11: generator fast paths do not depend on the previous value of the output; UX_COMP re-derived as well."
CLAIMED["C13"]["text"] += " Soundness gates: Some(..) only under strict r/R decoding, non-zero r and the point-equality check of the reconstructed signature; r never reduced."


def main():
    props = [json.loads(l) for l in open(os.path.join(VERIF, "properties.jsonl"))]
    checks = []
    na = []
    for p in props:
        pid = p["id"]
        if pid in CLAIMED:
            c = CLAIMED[pid]
            checks.append(dict(
                property_id=pid,
                quick_cmd="./check %s --tier quick" % pid,
                thorough_cmd="./check %s --tier thorough" % pid,
                evidence_file="evidence/%s.json" % pid,
                replay_cmd_template="./check %s --explain {path}" % pid,
                engine=c["engine"],
                level_claimed=dict(category=c["category"], text=c["text"], design_ref=c["design_ref"]),
                level_note=c["note"],
                technique=c["technique"]))
        else:
            na.append(dict(property_id=pid, reason=NA.get(
                pid, "not yet claimed in this commit: the static check for the clause planned in DESIGN.md section 0 is not built yet")))
    m = dict(
        version=1,
        setup_cmd="cd /verif/mirfacts && cargo build --release --offline && cd /verif && python3 -m compileall -q crrlverif",
        hooks=dict(guard="crrl_verif",
                   enable="none needed: all facts are read through the compiler by the rustc_private driver /verif/mirfacts (RUSTC_WRAPPER under cargo +nightly check); no hook code exists in /repo",
                   baseline_off_cmd="cd /repo && cargo test --workspace --no-fail-fast --offline",
                   source_commits=[], add_only=True),
        engines=[
            dict(name="mirfacts", path="mirfacts/", serves_properties=sorted(CLAIMED), kind_free_text="rustc_private driver dumping MIR, types, layouts and const-evaluated data as JSON"),
            dict(name="consttab", path="crrlverif/consttab.py", serves_properties=["C04", "C13"], kind_free_text="constant tables vs independent reference arithmetic"),
            dict(name="taint/ctflow", path="crrlverif/taint.py", serves_properties=["C02"], kind_free_text="interprocedural label analysis over MIR"),
            dict(name="gates", path="crrlverif/gates.py", serves_properties=["C05", "C06", "C07", "C08", "C09", "C13", "C15", "C16"], kind_free_text="check facts that must reach results; LMS state machine"),
            dict(name="maskdom/muxshape", path="crrlverif/maskdom.py", serves_properties=["C19", "C20", "C18"], kind_free_text="mask value sets, multiplexer truth tables, lookup scans"),
            dict(name="apiparity", path="crrlverif/apiparity.py", serves_properties=["C18"], kind_free_text="API parity, bit addressing, sibling skeletons"),
            dict(name="hashreset", path="crrlverif/hashreset.py", serves_properties=["C17"], kind_free_text="reset/new coverage, reset on finalise"),
            dict(name="totality", path="crrlverif/totality.py", serves_properties=["C10", "C11", "C15", "C19"], kind_free_text="panic edges, length/index obligations"),
            dict(name="limbcov", path="crrlverif/limbcov.py", serves_properties=["C04", "C05", "C06", "C07", "C08", "C09", "C10", "C11", "C13", "C15", "C17", "C18", "C20"], kind_free_text="limb / element coverage of whole-value operations (K5 family, K6)"),
            dict(name="loopprog/flaginit/ordering/hashconv/lmsstate", path="crrlverif/loopprog.py", serves_properties=["C19", "C10", "C15", "C16", "C08", "C13"], kind_free_text="loop classification (R19c), flag-guarded whole assignment (R10z), three-way comparator outcomes (G14), ECDSA hash-conversion agreement (G15), LMS one-time index state machine"),
        ],
        checks=checks,
        not_applicable=na,
        notes="Technique family: static analysis only. Every check re-extracts facts from /repo's working tree (content-hashed cache under /verif/.cache).")
    with open(os.path.join(VERIF, "MANIFEST.json"), "w") as fh:
        json.dump(m, fh, indent=1)


if __name__ == "__main__":
    main()
