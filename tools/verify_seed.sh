#!/bin/bash
# verify_seed.sh <propdir e.g. c07> : for each seed k under /tmp/seed_out/<prop>/<k> confirm
#  (a) suite passes with patch, (b) demo fails with patch, (c) demo passes without patch.
# Runs inside the scratch worktree /tmp/wt/<prop>; leaves it clean.
P=$1
WT=/tmp/wt/$P
OUT=/tmp/seed_out/$P
export CARGO_NET_OFFLINE=true
clean() { git -C $WT checkout -q -- . ; git -C $WT clean -fdq -e target -e Cargo.lock; }
rundemo() { # $1 = seed dir ; returns 0 if demo passes
  local S=$1
  if [ -d $S/demo ]; then
    local feat=""
    local extra=$(python3 -c "
import json,re,sys
m=json.load(open('$S/meta.json'))
c=' '.join(m.get('commands_run',[]))
mm=re.search(r'cd \S*demo && ((?:[A-Z_]+=\S+ )*)cargo run ([^#\n]*?)(?:#|$|\'|,)',c)
print((mm.group(2) if mm else '--offline').strip())
")
    local envs=$(python3 -c "
import json,re,sys
m=json.load(open('$S/meta.json'))
c=' '.join(m.get('commands_run',[]))
mm=re.search(r'cd \S*demo && ((?:[A-Z_]+=(?:\"[^\"]*\"|\S+) )*)cargo run',c)
e=(mm.group(1) if mm else '')
e=re.sub(r'CARGO_TARGET_DIR=\S+','',e)
print(e.strip())
")
    ( cd $S/demo && cp -n $WT/Cargo.lock . 2>/dev/null; eval "env $envs CARGO_TARGET_DIR=$OUT/target cargo run $extra" ) > $S/verify_demo.log 2>&1
    return $?
  else
    local tgt=$(python3 -c "
import json,re
m=json.load(open('$S/meta.json'))
c=' '.join(m.get('commands_run',[]))
mm=re.search(r'>> (src/\S+\.rs)',c)
print(mm.group(1) if mm else 'src/lib.rs')
")
    local itest=$(python3 -c "
import json,re
m=json.load(open('$S/meta.json'))
c=' '.join(m.get('commands_run',[]))
mm=re.search(r'tests/(\w+)\.rs',c)
print(mm.group(1) if mm else '')
")
    if [ -n "$itest" ]; then
      mkdir -p $WT/tests && cp $S/demo_test.rs $WT/tests/$itest.rs
      ( cd $WT && cargo test --offline --release --test $itest ) > $S/verify_demo.log 2>&1
      local rc=$?
      rm -rf $WT/tests
      return $rc
    fi
    cat $S/demo_test.rs >> $WT/$tgt
    ( cd $WT && cargo test --offline --lib --release ) > $S/verify_demo.log 2>&1
    local rc=$?
    git -C $WT checkout -q -- $tgt
    return $rc
  fi
}
for k in 1 2 3; do
  S=$OUT/$k
  [ -f $S/patch.diff ] || continue
  clean
  if ! git -C $WT apply $S/patch.diff 2>$S/verify_apply.log; then echo "$P/$k APPLY-FAIL"; continue; fi
  ( cd $WT && cargo test --offline ) > $S/verify_suite.log 2>&1; rc_suite=$?
  npass=$(grep -E "^test result: ok" $S/verify_suite.log | head -1)
  rundemo $S; rc_with=$?
  cp $S/verify_demo.log $S/verify_demo_with.log
  clean
  rundemo $S; rc_without=$?
  cp $S/verify_demo.log $S/verify_demo_without.log
  clean
  echo "$P/$k suite_rc=$rc_suite [$npass] demo_with_patch_rc=$rc_with demo_without_patch_rc=$rc_without"
done
