#!/usr/bin/env python3
"""Development-time: freeze the bulk (index / range / length) site inventory from the current tree."""
import json, os, sys
sys.path.insert(0, os.path.dirname(os.path.dirname(os.path.abspath(__file__))))
from crrlverif import totality, facts
cfgs = sys.argv[1:] or facts.THOROUGH_CONFIGS
facts.extract_many(cfgs)
counts, by_config, explicit = totality.freeze_inventory(cfgs)
out = dict(_comment="R19b/R19e bulk inventory: per (generalised function path, obligation kind) the number of index / range / "
           "copy-length / division / callee-requirement obligations that no rule discharges on the reviewed tree. "
           "These sites are NOT individually proved safe (their safety is an arithmetic property of data or of lengths "
           "beyond the interval/guard rules); the check decides that no NEW undischarged obligation appears, e.g. "
           "because a length guard was removed or an index computation changed shape.",
           configs=cfgs, counts=dict(sorted(counts.items())), by_config={c: dict(sorted(v.items())) for c, v in by_config.items()}, explicit_counts=dict(sorted(explicit.items())))
json.dump(out, open(os.path.join(os.path.dirname(os.path.dirname(os.path.abspath(__file__))), "tables", "site_inventory.json"), "w"), indent=0)
print(len(counts), sum(counts.values()))
