// mirfacts: rustc_private driver that dumps type-checked MIR, items and
// const-evaluated data of selected crates as JSON lines.
//
// Used as RUSTC_WRAPPER (argv[1] = path of the real rustc, dropped).
// Environment:
//   MIRFACTS_CRATES  comma separated crate names to dump (default "crrl")
//   MIRFACTS_OUT     output directory; one file <crate>.jsonl per dumped crate
#![feature(rustc_private)]
#![allow(deprecated)]

extern crate rustc_abi;
extern crate rustc_driver;
extern crate rustc_hir;
extern crate rustc_interface;
extern crate rustc_middle;
extern crate rustc_span;

use rustc_hir::def::DefKind;
use rustc_hir::def_id::{DefId, LocalDefId};
use rustc_middle::mir::interpret::{AllocId, GlobalAlloc};
use rustc_middle::mir::*;
use rustc_middle::ty::{self, Instance, Ty, TyCtxt, TypingEnv, TypeVisitableExt};
use rustc_middle::ty::print::PrintTraitRefExt;
use rustc_span::Span;
use std::collections::HashMap;
use std::fmt::Write as _;

fn esc(s: &str) -> String {
    let mut o = String::with_capacity(s.len() + 2);
    o.push('"');
    for c in s.chars() {
        match c {
            '"' => o.push_str("\\\""),
            '\\' => o.push_str("\\\\"),
            '\n' => o.push_str("\\n"),
            '\r' => o.push_str("\\r"),
            '\t' => o.push_str("\\t"),
            c if (c as u32) < 0x20 => {
                let _ = write!(o, "\\u{:04x}", c as u32);
            }
            c => o.push(c),
        }
    }
    o.push('"');
    o
}

fn hex(b: &[u8]) -> String {
    let mut o = String::with_capacity(b.len() * 2);
    for x in b {
        let _ = write!(o, "{:02x}", x);
    }
    o
}

struct Cx<'tcx> {
    tcx: TyCtxt<'tcx>,
    types: Vec<String>,
    tymap: HashMap<Ty<'tcx>, usize>,
    out: String,
}

impl<'tcx> Cx<'tcx> {
    fn path_id(&self, did: DefId) -> String {
        let tcx = self.tcx;
        format!("{}{}", tcx.crate_name(did.krate), tcx.def_path(did).to_string_no_crate_verbose())
    }
    fn path_name(&self, did: DefId) -> String {
        let tcx = self.tcx;
        let s = tcx.def_path_str(did);
        if did.is_local() {
            format!("{}::{}", tcx.crate_name(did.krate), s)
        } else {
            s
        }
    }

    fn ty_id(&mut self, ty: Ty<'tcx>) -> usize {
        if let Some(&i) = self.tymap.get(&ty) {
            return i;
        }
        let idx = self.types.len();
        self.types.push(String::new());
        self.tymap.insert(ty, idx);
        let tcx = self.tcx;
        let mut d = String::new();
        let _ = write!(d, "{{\"s\":{}", esc(&format!("{}", ty)));
        // layout
        let tenv = TypingEnv::fully_monomorphized();
        let layout = if ty.has_non_region_param() || ty.has_aliases() {
            None
        } else {
            tcx.layout_of(tenv.as_query_input(ty)).ok()
        };
        if let Some(l) = &layout {
            let _ = write!(d, ",\"size\":{}", l.size.bytes());
        }
        match ty.kind() {
            ty::Bool => d.push_str(",\"k\":\"bool\""),
            ty::Char => d.push_str(",\"k\":\"char\""),
            ty::Str => d.push_str(",\"k\":\"str\""),
            ty::Never => d.push_str(",\"k\":\"never\""),
            ty::Float(_) => d.push_str(",\"k\":\"float\""),
            ty::Uint(u) => {
                let bits = u.bit_width().unwrap_or(tcx.data_layout.pointer_size().bits());
                let _ = write!(d, ",\"k\":\"uint\",\"bits\":{},\"usize\":{}", bits, u.bit_width().is_none());
            }
            ty::Int(u) => {
                let bits = u.bit_width().unwrap_or(tcx.data_layout.pointer_size().bits());
                let _ = write!(d, ",\"k\":\"int\",\"bits\":{},\"usize\":{}", bits, u.bit_width().is_none());
            }
            ty::Ref(_, inner, m) => {
                let i = self.ty_id(*inner);
                let _ = write!(d, ",\"k\":\"ref\",\"mut\":{},\"to\":{}", m.is_mut(), i);
            }
            ty::RawPtr(inner, m) => {
                let i = self.ty_id(*inner);
                let _ = write!(d, ",\"k\":\"ptr\",\"mut\":{},\"to\":{}", m.is_mut(), i);
            }
            ty::Array(elem, len) => {
                let i = self.ty_id(*elem);
                let n = len.try_to_target_usize(tcx);
                let _ = write!(d, ",\"k\":\"array\",\"elem\":{},\"len\":{}", i, match n {
                    Some(n) => n.to_string(),
                    None => format!("{}", esc(&format!("{}", len))),
                });
            }
            ty::Slice(elem) => {
                let i = self.ty_id(*elem);
                let _ = write!(d, ",\"k\":\"slice\",\"elem\":{}", i);
            }
            ty::Tuple(elems) => {
                let ids: Vec<String> = elems.iter().map(|e| self.ty_id(e).to_string()).collect();
                let _ = write!(d, ",\"k\":\"tuple\",\"elems\":[{}]", ids.join(","));
                if let Some(l) = &layout {
                    let offs: Vec<String> =
                        (0..elems.len()).map(|i| l.fields.offset(i).bytes().to_string()).collect();
                    let _ = write!(d, ",\"offsets\":[{}]", offs.join(","));
                }
            }
            ty::Adt(adt, args) => {
                let did = adt.did();
                let _ = write!(
                    d,
                    ",\"k\":\"adt\",\"path\":{},\"local\":{},\"enum\":{},\"union\":{}",
                    esc(&self.path_name(did)),
                    did.is_local(),
                    adt.is_enum(),
                    adt.is_union()
                );
                let ga: Vec<String> = args.iter().map(|a| esc(&format!("{}", a))).collect();
                let _ = write!(d, ",\"args\":[{}]", ga.join(","));
                let nm = self.path_name(did);
                let expand = did.is_local()
                    || nm.starts_with("std::option::Option")
                    || nm.starts_with("core::option::Option")
                    || nm.starts_with("std::result::Result")
                    || nm.starts_with("std::ops::Range")
                    || nm.starts_with("core::ops::Range");
                if expand && !adt.is_union() {
                    let mut vs = Vec::new();
                    for (vi, v) in adt.variants().iter_enumerated() {
                        let mut fs = Vec::new();
                        for (fi, f) in v.fields.iter_enumerated() {
                            let fty = f.ty(tcx, args);
                            let fid = self.ty_id(fty);
                            let mut off = String::from("null");
                            if let Some(l) = &layout {
                                if !adt.is_enum() {
                                    off = l.fields.offset(fi.as_usize()).bytes().to_string();
                                }
                            }
                            fs.push(format!(
                                "[{},{},{},{}]",
                                esc(f.name.as_str()),
                                fid,
                                off,
                                esc(&format!("{:?}", f.vis))
                            ));
                        }
                        vs.push(format!("[{},{},[{}]]", esc(v.name.as_str()), vi.as_u32(), fs.join(",")));
                    }
                    let _ = write!(d, ",\"variants\":[{}]", vs.join(","));
                }
            }
            ty::FnDef(did, args) => {
                let ga: Vec<String> = args.iter().map(|a| esc(&format!("{}", a))).collect();
                let _ = write!(d, ",\"k\":\"fndef\",\"path\":{},\"args\":[{}]", esc(&self.path_name(*did)), ga.join(","));
            }
            ty::Closure(did, _) => {
                let _ = write!(d, ",\"k\":\"closure\",\"path\":{}", esc(&self.path_id(*did)));
            }
            ty::Param(p) => {
                let _ = write!(d, ",\"k\":\"param\",\"name\":{}", esc(p.name.as_str()));
            }
            _ => d.push_str(",\"k\":\"other\""),
        }
        d.push('}');
        self.types[idx] = d;
        idx
    }

    fn alloc_bytes(&self, aid: AllocId, offset: u64, size: u64) -> Option<String> {
        let tcx = self.tcx;
        match tcx.global_alloc(aid) {
            GlobalAlloc::Memory(a) => {
                let a = a.inner();
                let total = a.size().bytes();
                if offset + size > total {
                    return None;
                }
                if !a.provenance().ptrs().is_empty() {
                    return None;
                }
                let bytes = a.inspect_with_uninit_and_ptr_outside_interpreter(offset as usize..(offset + size) as usize);
                Some(hex(bytes))
            }
            GlobalAlloc::Static(did) => {
                if let Ok(a) = tcx.eval_static_initializer(did) {
                    let a = a.inner();
                    let total = a.size().bytes();
                    if offset + size > total || !a.provenance().ptrs().is_empty() {
                        return None;
                    }
                    let bytes = a.inspect_with_uninit_and_ptr_outside_interpreter(offset as usize..(offset + size) as usize);
                    Some(hex(bytes))
                } else {
                    None
                }
            }
            _ => None,
        }
    }

    fn span_line(&self, sp: Span, fnfile: &str) -> String {
        let sm = self.tcx.sess.source_map();
        if sp.is_dummy() {
            return "0".into();
        }
        let loc = sm.lookup_char_pos(sp.lo());
        let f = format!("{}", loc.file.name.prefer_remapped_unconditionally());
        if f == fnfile {
            loc.line.to_string()
        } else {
            esc(&format!("{}:{}", f, loc.line))
        }
    }

    fn macros(&self, sp: Span) -> String {
        if !sp.from_expansion() {
            return "[]".into();
        }
        let mut v = Vec::new();
        for e in sp.macro_backtrace() {
            if let rustc_span::ExpnKind::Macro(_, name) = e.kind {
                v.push(esc(name.as_str()));
            } else {
                v.push(esc(&format!("{:?}", e.kind)));
            }
        }
        format!("[{}]", v.join(","))
    }

    fn place(&mut self, p: &Place<'tcx>) -> String {
        let mut s = format!("[{}", p.local.as_u32());
        for e in p.projection.iter() {
            match e {
                ProjectionElem::Deref => s.push_str(",\"*\""),
                ProjectionElem::Field(f, _) => {
                    let _ = write!(s, ",[\"f\",{}]", f.as_u32());
                }
                ProjectionElem::Index(l) => {
                    let _ = write!(s, ",[\"i\",{}]", l.as_u32());
                }
                ProjectionElem::ConstantIndex { offset, min_length, from_end } => {
                    let _ = write!(s, ",[\"c\",{},{},{}]", offset, min_length, from_end);
                }
                ProjectionElem::Subslice { from, to, from_end } => {
                    let _ = write!(s, ",[\"s\",{},{},{}]", from, to, from_end);
                }
                ProjectionElem::Downcast(_, v) => {
                    let _ = write!(s, ",[\"d\",{}]", v.as_u32());
                }
                _ => s.push_str(",\"?\""),
            }
        }
        s.push(']');
        s
    }

    fn fn_ref(&mut self, caller: DefId, did: DefId, args: ty::GenericArgsRef<'tcx>) -> String {
        let tcx = self.tcx;
        let mut rdid = did;
        let mut rargs = args;
        let mut resolved = false;
        if tcx.trait_of_assoc(did).is_some() {
            let tenv = TypingEnv::post_analysis(tcx, caller);
            if let Ok(Some(inst)) = Instance::try_resolve(tcx, tenv, did, args) {
                if let ty::InstanceKind::Item(d) = inst.def {
                    rdid = d;
                    rargs = inst.args;
                    resolved = true;
                }
            }
        } else {
            resolved = true;
        }
        let ga: Vec<String> = rargs.iter().map(|a| esc(&format!("{}", a))).collect();
        let mut s = format!(
            "{{\"f\":{},\"id\":{},\"l\":{},\"r\":{},\"g\":[{}]",
            esc(&self.path_name(rdid)),
            esc(&self.path_id(rdid)),
            rdid.is_local(),
            resolved,
            ga.join(",")
        );
        if rdid != did {
            let _ = write!(s, ",\"via\":{}", esc(&self.path_name(did)));
        }
        s.push('}');
        s
    }

    fn constant(&mut self, caller: DefId, c: &ConstOperand<'tcx>) -> String {
        let tcx = self.tcx;
        let ty = c.const_.ty();
        let tid = self.ty_id(ty);
        if let ty::FnDef(did, args) = ty.kind() {
            return format!("[\"fn\",{}]", self.fn_ref(caller, *did, args));
        }
        let tenv = TypingEnv::post_analysis(tcx, caller);
        let mut extra = String::new();
        // which item does it name?
        if let Const::Unevaluated(u, _) = c.const_ {
            let _ = write!(extra, ",\"item\":{}", esc(&self.path_name(u.def)));
            if let Some(p) = u.promoted {
                let _ = write!(extra, ",\"promoted\":{}", p.as_u32());
            }
        }
        if ty.is_integral() || ty.is_bool() || ty.is_char() {
            if let Some(sc) = c.const_.try_eval_scalar_int(tcx, tenv) {
                let v = sc.to_bits(sc.size());
                if extra.is_empty() {
                    return format!("[\"k\",\"{}\",{}]", v, tid);
                }
                return format!("[\"k\",\"{}\",{},{{\"x\":0{}}}]", v, tid, extra);
            }
            return format!(
                "[\"k\",null,{},{{\"sym\":{}{}}}]",
                tid,
                esc(&format!("{}", c.const_)),
                extra
            );
        }
        // non-scalar: try to evaluate and dump bytes
        let mut bytes: Option<String> = None;
        let mut strval: Option<String> = None;
        if !c.const_.ty().has_non_region_param() {
            if let Ok(v) = c.const_.eval(tcx, tenv, c.span) {
                match v {
                    ConstValue::Indirect { alloc_id, offset } => {
                        if let Ok(l) = tcx.layout_of(tenv.as_query_input(ty)) {
                            if l.size.bytes() <= 1 << 20 {
                                bytes = self.alloc_bytes(alloc_id, offset.bytes(), l.size.bytes());
                            }
                        }
                    }
                    ConstValue::Scalar(rustc_middle::mir::interpret::Scalar::Ptr(ptr, _)) => {
                        if let ty::Ref(_, inner, _) = ty.kind() {
                            if let Ok(l) = tcx.layout_of(tenv.as_query_input(*inner)) {
                                let (prov, off) = ptr.into_raw_parts();
                                if l.size.bytes() <= 1 << 20 {
                                    bytes = self.alloc_bytes(prov.alloc_id(), off.bytes(), l.size.bytes());
                                }
                            }
                        }
                    }
                    ConstValue::Slice { alloc_id, meta } => {
                        if let ty::Ref(_, inner, _) = ty.kind() {
                            if inner.is_str() {
                                if let Some(h) = self.alloc_bytes(alloc_id, 0, meta) {
                                    let raw: Vec<u8> = (0..h.len() / 2)
                                        .map(|i| u8::from_str_radix(&h[2 * i..2 * i + 2], 16).unwrap())
                                        .collect();
                                    strval = Some(String::from_utf8_lossy(&raw).into_owned());
                                }
                            } else {
                                if let ty::Slice(e) = inner.kind() {
                                    if let Ok(l) = tcx.layout_of(tenv.as_query_input(*e)) {
                                        bytes = self.alloc_bytes(alloc_id, 0, meta * l.size.bytes());
                                    }
                                }
                            }
                        }
                    }
                    ConstValue::ZeroSized => {
                        bytes = Some(String::new());
                    }
                    _ => {}
                }
            }
        }
        let mut o = format!("[\"kc\",{},{{\"d\":{}", tid, esc(&format!("{}", c.const_)));
        if let Some(b) = bytes {
            let _ = write!(o, ",\"bytes\":\"{}\"", b);
        }
        if let Some(s) = strval {
            let _ = write!(o, ",\"str\":{}", esc(&s));
        }
        if !extra.is_empty() {
            o.push_str(&extra);
        }
        o.push_str("}]");
        o
    }

    fn operand(&mut self, caller: DefId, o: &Operand<'tcx>) -> String {
        match o {
            Operand::Copy(p) => format!("[\"cp\",{}]", self.place(p)),
            Operand::Move(p) => format!("[\"mv\",{}]", self.place(p)),
            Operand::Constant(c) => self.constant(caller, c),
            _ => "[\"rtc\"]".into(),
        }
    }

    fn rvalue(&mut self, caller: DefId, r: &Rvalue<'tcx>) -> String {
        match r {
            Rvalue::Use(o, _) => format!("[\"use\",{}]", self.operand(caller, o)),
            Rvalue::Repeat(o, n) => {
                let cnt = n.try_to_target_usize(self.tcx);
                format!(
                    "[\"repeat\",{},{}]",
                    self.operand(caller, o),
                    match cnt {
                        Some(n) => n.to_string(),
                        None => esc(&format!("{}", n)),
                    }
                )
            }
            Rvalue::Ref(_, bk, p) => {
                let m = matches!(bk, BorrowKind::Mut { .. });
                format!("[\"ref\",{},{}]", m, self.place(p))
            }
            Rvalue::RawPtr(k, p) => format!("[\"rawptr\",{},{}]", esc(&format!("{:?}", k)), self.place(p)),
            Rvalue::Cast(k, o, t) => {
                let tid = self.ty_id(*t);
                let kind = match k {
                    CastKind::PointerCoercion(pc, _) => format!("PointerCoercion({:?})", pc),
                    k => format!("{:?}", k),
                };
                format!("[\"cast\",{},{},{}]", esc(&kind), self.operand(caller, o), tid)
            }
            Rvalue::BinaryOp(op, ab) => {
                let a = self.operand(caller, &ab.0);
                let b = self.operand(caller, &ab.1);
                format!("[\"bin\",\"{:?}\",{},{}]", op, a, b)
            }
            Rvalue::UnaryOp(op, a) => format!("[\"un\",\"{:?}\",{}]", op, self.operand(caller, a)),
            Rvalue::Discriminant(p) => format!("[\"discr\",{}]", self.place(p)),
            Rvalue::Aggregate(k, ops) => {
                let kind = match &**k {
                    AggregateKind::Array(_) => "{\"k\":\"array\"}".to_string(),
                    AggregateKind::Tuple => "{\"k\":\"tuple\"}".to_string(),
                    AggregateKind::Adt(did, v, _, _, uf) => format!(
                        "{{\"k\":\"adt\",\"path\":{},\"variant\":{},\"ufield\":{}}}",
                        esc(&self.path_name(*did)),
                        v.as_u32(),
                        match uf {
                            Some(f) => f.as_u32().to_string(),
                            None => "null".into(),
                        }
                    ),
                    AggregateKind::Closure(did, _) => {
                        format!("{{\"k\":\"closure\",\"path\":{}}}", esc(&self.path_id(*did)))
                    }
                    AggregateKind::RawPtr(..) => "{\"k\":\"rawptr\"}".to_string(),
                    _ => "{\"k\":\"other\"}".to_string(),
                };
                let os: Vec<String> = ops.iter().map(|o| self.operand(caller, o)).collect();
                format!("[\"agg\",{},[{}]]", kind, os.join(","))
            }
            Rvalue::CopyForDeref(p) => format!("[\"use\",[\"cp\",{}]]", self.place(p)),
            Rvalue::ThreadLocalRef(_) => "[\"tls\"]".into(),
            Rvalue::WrapUnsafeBinder(o, _) => format!("[\"use\",{}]", self.operand(caller, o)),
        }
    }

    fn dump_fn(&mut self, ldid: LocalDefId) {
        let tcx = self.tcx;
        let did = ldid.to_def_id();
        let kind = tcx.def_kind(did);
        if !tcx.is_mir_available(did) {
            return;
        }
        let body = tcx.optimized_mir(did);
        let sm = tcx.sess.source_map();
        let dspan = tcx.def_span(did);
        let loc = sm.lookup_char_pos(body.span.lo());
        let fnfile = format!("{}", loc.file.name.prefer_remapped_unconditionally());
        let loc_hi = sm.lookup_char_pos(body.span.hi());
        let mut o = String::new();
        let _ = write!(
            o,
            "{{\"k\":\"fn\",\"id\":{},\"name\":{},\"kind\":\"{:?}\",\"file\":{},\"line\":{},\"line_hi\":{}",
            esc(&self.path_id(did)),
            esc(&self.path_name(did)),
            kind,
            esc(&fnfile),
            loc.line,
            loc_hi.line
        );
        let _ = write!(o, ",\"item\":{}", esc(tcx.item_name(if kind == DefKind::Closure { tcx.parent(did) } else { did }).as_str()));
        let _ = write!(o, ",\"macros\":{}", self.macros(dspan));
        if matches!(kind, DefKind::Fn | DefKind::AssocFn) {
            let _ = write!(o, ",\"vis\":{}", esc(&format!("{:?}", tcx.visibility(did))));
            let reach = tcx.effective_visibilities(()).is_reachable(ldid);
            let _ = write!(o, ",\"reach\":{}", reach);
            let sig = tcx.fn_sig(did).instantiate_identity().skip_norm_wip();
            let _ = write!(o, ",\"sig\":{}", esc(&format!("{}", sig)));
            let _ = write!(o, ",\"const\":{}", tcx.is_const_fn(did));
            let _ = write!(o, ",\"unsafe\":{}", sig.safety().is_unsafe());
        }
        // docs and attrs
        let mut doc = String::new();
        let mut attrs = Vec::new();
        for a in tcx.get_all_attrs(did) {
            if let Some((s, _)) = a.doc_str_and_fragment_kind() {
                doc.push_str(s.as_str());
                doc.push('\n');
            } else if let Some(n) = a.name() {
                attrs.push(esc(n.as_str()));
            }
        }
        let _ = write!(o, ",\"doc\":{},\"attrs\":[{}]", esc(&doc), attrs.join(","));
        // container
        if kind == DefKind::AssocFn {
            let parent = tcx.parent(did);
            match tcx.def_kind(parent) {
                DefKind::Impl { of_trait } => {
                    let sty = tcx.type_of(parent).instantiate_identity().skip_norm_wip();
                    let _ = write!(o, ",\"self_ty\":{}", esc(&format!("{}", sty)));
                    if let ty::Adt(a, _) = sty.kind() {
                        let _ = write!(o, ",\"self_adt\":{}", esc(&self.path_name(a.did())));
                    }
                    if of_trait {
                        let tr = tcx.impl_trait_ref(parent).instantiate_identity().skip_norm_wip();
                        let _ = write!(o, ",\"trait\":{}", esc(&format!("{}", tr.print_only_trait_path())));
                    }
                    let _ = write!(o, ",\"impl_id\":{}", esc(&self.path_id(parent)));
                }
                DefKind::Trait => {
                    let _ = write!(o, ",\"in_trait\":{}", esc(&self.path_name(parent)));
                }
                _ => {}
            }
        }
        // generics
        let gens = tcx.generics_of(did);
        let mut gs = Vec::new();
        let mut g = Some(gens);
        while let Some(gg) = g {
            for p in &gg.own_params {
                let k = match p.kind {
                    ty::GenericParamDefKind::Lifetime => "lt",
                    ty::GenericParamDefKind::Type { .. } => "ty",
                    ty::GenericParamDefKind::Const { .. } => "const",
                };
                gs.push(format!("[{},\"{}\"]", esc(p.name.as_str()), k));
            }
            g = gg.parent.map(|p| tcx.generics_of(p));
        }
        let _ = write!(o, ",\"generics\":[{}]", gs.join(","));
        let _ = write!(o, ",\"argc\":{}", body.arg_count);
        // locals
        let mut names: HashMap<u32, String> = HashMap::new();
        for vdi in &body.var_debug_info {
            if let VarDebugInfoContents::Place(p) = &vdi.value {
                if p.projection.is_empty() {
                    names.entry(p.local.as_u32()).or_insert_with(|| vdi.name.as_str().to_string());
                }
            }
        }
        let mut ls = Vec::new();
        for (l, decl) in body.local_decls.iter_enumerated() {
            let tid = self.ty_id(decl.ty);
            let nm = match names.get(&l.as_u32()) {
                Some(n) => esc(n),
                None => "null".into(),
            };
            ls.push(format!("[{},{}]", tid, nm));
        }
        let _ = write!(o, ",\"locals\":[{}]", ls.join(","));
        // blocks
        o.push_str(",\"blocks\":[");
        let mut first = true;
        for (_bb, data) in body.basic_blocks.iter_enumerated() {
            if !first {
                o.push(',');
            }
            first = false;
            o.push_str("{\"s\":[");
            let mut fs = true;
            for st in &data.statements {
                let s = match &st.kind {
                    StatementKind::Assign(b) => {
                        let (p, r) = &**b;
                        let ps = self.place(p);
                        let rs = self.rvalue(did, r);
                        Some(format!("[\"A\",{},{},{}]", ps, rs, self.span_line(st.source_info.span, &fnfile)))
                    }
                    StatementKind::SetDiscriminant { place, variant_index } => Some(format!(
                        "[\"SD\",{},{},{}]",
                        self.place(place),
                        variant_index.as_u32(),
                        self.span_line(st.source_info.span, &fnfile)
                    )),
                    StatementKind::Intrinsic(i) => match &**i {
                        NonDivergingIntrinsic::Assume(op) => {
                            Some(format!("[\"ASSUME\",{}]", self.operand(did, op)))
                        }
                        NonDivergingIntrinsic::CopyNonOverlapping(c) => Some(format!(
                            "[\"MEMCPY\",{},{},{}]",
                            self.operand(did, &c.src),
                            self.operand(did, &c.dst),
                            self.operand(did, &c.count)
                        )),
                    },
                    _ => None,
                };
                if let Some(s) = s {
                    if !fs {
                        o.push(',');
                    }
                    fs = false;
                    o.push_str(&s);
                }
            }
            o.push_str("],\"t\":");
            let term = data.terminator();
            let line = self.span_line(term.source_info.span, &fnfile);
            let mac = self.macros(term.source_info.span);
            let t = match &term.kind {
                TerminatorKind::Goto { target } => format!("[\"goto\",{}]", target.as_u32()),
                TerminatorKind::SwitchInt { discr, targets } => {
                    let mut ts = Vec::new();
                    for (v, t) in targets.iter() {
                        ts.push(format!("[\"{}\",{}]", v, t.as_u32()));
                    }
                    let dty = discr.ty(&body.local_decls, tcx);
                    let tid = self.ty_id(dty);
                    format!(
                        "[\"switch\",{},[{}],{},{},{},{}]",
                        self.operand(did, discr),
                        ts.join(","),
                        targets.otherwise().as_u32(),
                        line,
                        tid,
                        mac
                    )
                }
                TerminatorKind::Return => "[\"ret\"]".into(),
                TerminatorKind::Unreachable => "[\"unreachable\"]".into(),
                TerminatorKind::UnwindResume => "[\"resume\"]".into(),
                TerminatorKind::UnwindTerminate(_) => "[\"abort\"]".into(),
                TerminatorKind::Drop { place, target, .. } => {
                    format!("[\"drop\",{},{}]", self.place(place), target.as_u32())
                }
                TerminatorKind::Call { func, args, destination, target, fn_span, .. } => {
                    let f = match func {
                        Operand::Constant(c) => match c.const_.ty().kind() {
                            ty::FnDef(fd, ga) => self.fn_ref(did, *fd, ga),
                            _ => format!("{{\"f\":\"?indirect\",\"id\":\"?\",\"l\":false,\"r\":false,\"g\":[]}}"),
                        },
                        _ => format!("{{\"f\":\"?indirect\",\"id\":\"?\",\"l\":false,\"r\":false,\"g\":[]}}"),
                    };
                    let asv: Vec<String> = args.iter().map(|a| self.operand(did, &a.node)).collect();
                    let _ = fn_span;
                    format!(
                        "[\"call\",{},[{}],{},{},{},{}]",
                        f,
                        asv.join(","),
                        self.place(destination),
                        match target {
                            Some(t) => t.as_u32().to_string(),
                            None => "null".into(),
                        },
                        line,
                        mac
                    )
                }
                TerminatorKind::Assert { cond, expected, msg, target, .. } => {
                    let (kind, ops): (&str, Vec<String>) = match &**msg {
                        AssertKind::BoundsCheck { len, index } => {
                            ("bounds", vec![self.operand(did, len), self.operand(did, index)])
                        }
                        AssertKind::Overflow(op, a, b) => {
                            let _ = op;
                            ("overflow", vec![self.operand(did, a), self.operand(did, b)])
                        }
                        AssertKind::OverflowNeg(a) => ("overflow_neg", vec![self.operand(did, a)]),
                        AssertKind::DivisionByZero(a) => ("div0", vec![self.operand(did, a)]),
                        AssertKind::RemainderByZero(a) => ("rem0", vec![self.operand(did, a)]),
                        AssertKind::MisalignedPointerDereference { .. } => ("misaligned", vec![]),
                        AssertKind::NullPointerDereference => ("nullptr", vec![]),
                        _ => ("other", vec![]),
                    };
                    format!(
                        "[\"assert\",{},{},\"{}\",[{}],{},{},{}]",
                        self.operand(did, cond),
                        expected,
                        kind,
                        ops.join(","),
                        target.as_u32(),
                        line,
                        mac
                    )
                }
                TerminatorKind::FalseEdge { real_target, .. } => format!("[\"goto\",{}]", real_target.as_u32()),
                TerminatorKind::FalseUnwind { real_target, .. } => format!("[\"goto\",{}]", real_target.as_u32()),
                TerminatorKind::InlineAsm { .. } => "[\"asm\"]".into(),
                _ => "[\"other\"]".into(),
            };
            o.push_str(&t);
            let _ = write!(o, ",\"c\":{}}}", data.is_cleanup);
        }
        o.push_str("]}\n");
        self.out.push_str(&o);
    }

    fn dump_data_item(&mut self, ldid: LocalDefId) {
        let tcx = self.tcx;
        let did = ldid.to_def_id();
        let kind = tcx.def_kind(did);
        let ty = tcx.type_of(did).instantiate_identity().skip_norm_wip();
        if ty.has_non_region_param() {
            return;
        }
        if tcx.generics_of(did).count() > 0 {
            // generic parent: only dump if no type/const params at all
            let mut g = Some(tcx.generics_of(did));
            while let Some(gg) = g {
                for p in &gg.own_params {
                    if !matches!(p.kind, ty::GenericParamDefKind::Lifetime) {
                        return;
                    }
                }
                g = gg.parent.map(|p| tcx.generics_of(p));
            }
        }
        let tenv = TypingEnv::fully_monomorphized();
        let tid = self.ty_id(ty);
        let size = match tcx.layout_of(tenv.as_query_input(ty)) {
            Ok(l) => l.size.bytes(),
            Err(_) => return,
        };
        let mut bytes: Option<String> = None;
        match kind {
            DefKind::Static { .. } => {
                if let Ok(a) = tcx.eval_static_initializer(did) {
                    let a = a.inner();
                    if a.provenance().ptrs().is_empty() {
                        bytes = Some(hex(a.inspect_with_uninit_and_ptr_outside_interpreter(0..a.size().bytes() as usize)));
                    }
                }
            }
            DefKind::Const { .. } | DefKind::AssocConst { .. } => {
                if let Ok(v) = tcx.const_eval_poly(did) {
                    match v {
                        ConstValue::Indirect { alloc_id, offset } => {
                            bytes = self.alloc_bytes(alloc_id, offset.bytes(), size);
                        }
                        ConstValue::Scalar(rustc_middle::mir::interpret::Scalar::Int(si)) => {
                            let v = si.to_bits(si.size());
                            let mut b = Vec::new();
                            for i in 0..si.size().bytes() {
                                b.push(((v >> (8 * i)) & 0xff) as u8);
                            }
                            bytes = Some(hex(&b));
                        }
                        _ => {}
                    }
                }
            }
            _ => return,
        }
        let sm = tcx.sess.source_map();
        let loc = sm.lookup_char_pos(tcx.def_span(did).lo());
        let mut o = String::new();
        let _ = write!(
            o,
            "{{\"k\":\"data\",\"id\":{},\"name\":{},\"kind\":\"{:?}\",\"ty\":{},\"size\":{},\"file\":{},\"line\":{},\"vis\":{}",
            esc(&self.path_id(did)),
            esc(&self.path_name(did)),
            kind,
            tid,
            size,
            esc(&format!("{}", loc.file.name.prefer_remapped_unconditionally())),
            loc.line,
            esc(&format!("{:?}", tcx.visibility(did)))
        );
        if let Some(b) = bytes {
            let _ = write!(o, ",\"bytes\":\"{}\"", b);
        }
        o.push_str("}\n");
        self.out.push_str(&o);
    }

    fn dump_struct(&mut self, ldid: LocalDefId) {
        let tcx = self.tcx;
        let did = ldid.to_def_id();
        let adt = tcx.adt_def(did);
        let mut o = String::new();
        let sm = tcx.sess.source_map();
        let loc = sm.lookup_char_pos(tcx.def_span(did).lo());
        let _ = write!(
            o,
            "{{\"k\":\"adt\",\"name\":{},\"id\":{},\"enum\":{},\"vis\":{},\"reach\":{},\"file\":{},\"line\":{},\"variants\":[",
            esc(&self.path_name(did)),
            esc(&self.path_id(did)),
            adt.is_enum(),
            esc(&format!("{:?}", tcx.visibility(did))),
            tcx.effective_visibilities(()).is_reachable(ldid),
            esc(&format!("{}", loc.file.name.prefer_remapped_unconditionally())),
            loc.line
        );
        let mut vs = Vec::new();
        for v in adt.variants().iter() {
            let mut fs = Vec::new();
            for f in v.fields.iter() {
                let fty = tcx.type_of(f.did).instantiate_identity().skip_norm_wip();
                fs.push(format!(
                    "[{},{},{}]",
                    esc(f.name.as_str()),
                    esc(&format!("{}", fty)),
                    esc(&format!("{:?}", f.vis))
                ));
            }
            vs.push(format!("[{},[{}]]", esc(v.name.as_str()), fs.join(",")));
        }
        o.push_str(&vs.join(","));
        o.push_str("]");
        let mut doc = String::new();
        for a in tcx.get_all_attrs(did) {
            if let Some((s, _)) = a.doc_str_and_fragment_kind() {
                doc.push_str(s.as_str());
                doc.push('\n');
            }
        }
        let _ = write!(o, ",\"doc\":{}}}\n", esc(&doc));
        self.out.push_str(&o);
    }
}

fn dump<'tcx>(tcx: TyCtxt<'tcx>, outdir: &str) {
    let krate = tcx.crate_name(rustc_hir::def_id::LOCAL_CRATE).to_string();
    let mut cx = Cx { tcx, types: Vec::new(), tymap: HashMap::new(), out: String::new() };
    rustc_middle::ty::print::with_no_trimmed_paths!({
        let _ = write!(
            cx.out,
            "{{\"k\":\"crate\",\"name\":{},\"ptr_bits\":{},\"target\":{}}}\n",
            esc(&krate),
            tcx.data_layout.pointer_size().bits(),
            esc(&tcx.sess.opts.target_triple.tuple().to_string())
        );
        for ldid in tcx.hir_body_owners() {
            let k = tcx.def_kind(ldid.to_def_id());
            if matches!(k, DefKind::Fn | DefKind::AssocFn | DefKind::Closure) {
                cx.dump_fn(ldid);
            }
        }
        for ldid in tcx.hir_crate_items(()).definitions() {
            let k = tcx.def_kind(ldid.to_def_id());
            match k {
                DefKind::Static { .. } | DefKind::Const { .. } | DefKind::AssocConst { .. } => cx.dump_data_item(ldid),
                DefKind::Struct | DefKind::Enum => cx.dump_struct(ldid),
                _ => {}
            }
        }
        // trait-less fn declarations without bodies are not relevant; emit types last
        let mut t = String::from("{\"k\":\"types\",\"types\":[");
        t.push_str(&cx.types.join(","));
        t.push_str("]}\n");
        cx.out.push_str(&t);
    });
    let path = format!("{}/{}.jsonl", outdir, krate);
    std::fs::write(&path, cx.out.as_bytes()).expect("write facts");
}

struct Cb {
    crates: Vec<String>,
    outdir: String,
}

impl rustc_driver::Callbacks for Cb {
    fn after_analysis<'tcx>(
        &mut self,
        _compiler: &rustc_interface::interface::Compiler,
        tcx: TyCtxt<'tcx>,
    ) -> rustc_driver::Compilation {
        let krate = tcx.crate_name(rustc_hir::def_id::LOCAL_CRATE).to_string();
        if self.crates.iter().any(|c| *c == krate) {
            dump(tcx, &self.outdir);
        }
        rustc_driver::Compilation::Continue
    }
}

fn main() {
    let mut args: Vec<String> = std::env::args().collect();
    // RUSTC_WRAPPER convention: argv[1] is the path to the real rustc.
    if args.len() > 1 && (args[1].ends_with("rustc") || args[1].contains("/rustc")) {
        args.remove(1);
    }
    let crates: Vec<String> = std::env::var("MIRFACTS_CRATES")
        .unwrap_or_else(|_| "crrl".into())
        .split(',')
        .map(|s| s.to_string())
        .collect();
    let outdir = std::env::var("MIRFACTS_OUT").unwrap_or_else(|_| ".".into());
    let mut cb = Cb { crates, outdir };
    rustc_driver::run_compiler(&args, &mut cb);
}
